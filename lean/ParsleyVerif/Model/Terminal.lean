/-
  text/terminal/*.go.  Each terminal is `parse : Params → File → pos → TermOut`.
  The five literal regular expressions are modelled by hand-written leftmost-first matchers (their
  source text is a regenerated fact); strconv.ParseInt (base 0, 64 bit), strconv.UnquoteChar and
  unquoteString are re-implemented; strconv.ParseFloat, time.ParseDuration and the regexp engine for
  user expressions are PARAMETERS (`Params`): the model decides which bytes they get and what
  happens with either answer.
-/
import ParsleyVerif.Model.Node
namespace PV
open PV.Text

structure Params where
  /-- strconv.ParseFloat(lexeme, 64) succeeded? -/
  floatOk : Bytes → Bool
  /-- time.ParseDuration(lexeme): none = ok, some msg = error text -/
  durErr : Bytes → Option Bytes
  /-- regexp engine for terminal.Regexp expression `id` on the rest of the input:
      (length of the whole match, value of the requested group); the group index out of range is `none` value -/
  regexp : Nat → Bytes → Option (Nat × Option Bytes)

inductive TermOut
  | node (n : Node)
  | err (e : Err)
  | panic (site : String)
deriving Repr, Inhabited

def isDigit (b : Nat) : Bool := 48 ≤ b && b ≤ 57
def isHex (b : Nat) : Bool := isDigit b || (97 ≤ b && b ≤ 102) || (65 ≤ b && b ≤ 70)
def isOct (b : Nat) : Bool := 48 ≤ b && b ≤ 55
def spanLen (p : Nat → Bool) (l : Bytes) : Nat := (l.takeWhile p).length

def signLen : Bytes → Nat
  | 45 :: _ => 1
  | 43 :: _ => 1
  | _ => 0

/-- `[-+]?(?:[1-9][0-9]*|0[xX][0-9a-fA-F]+|0[0-7]*)` -/
def integerMatch (l : Bytes) : Option Nat :=
  let s := signLen l
  match l.drop s with
  | d :: r =>
    if 49 ≤ d && d ≤ 57 then some (s + 1 + spanLen isDigit r)
    else if d = 48 then
      match r with
      | x :: r' =>
        if (x = 120 || x = 88) && spanLen isHex r' > 0 then some (s + 2 + spanLen isHex r')
        else some (s + 1 + spanLen isOct r)
      | [] => some (s + 1)
    else none
  | [] => none

/-- `[eE][-+]?[0-9]+` -/
def exponentLen : Bytes → Nat
  | e :: r =>
    if e = 101 || e = 69 then
      let s := signLen r
      let d := spanLen isDigit (r.drop s)
      if d > 0 then 1 + s + d else 0
    else 0
  | [] => 0

/-- `[-+]?[0-9]*\.[0-9]+(?:[eE][-+]?[0-9]+)?` -/
def floatMatch (l : Bytes) : Option Nat :=
  let s := signLen l
  let n := spanLen isDigit (l.drop s)
  match l.drop (s + n) with
  | 46 :: r =>
    let m := spanLen isDigit r
    if m > 0 then some (s + n + 1 + m + exponentLen (r.drop m)) else none
  | _ => none

/-- `ns|us|µs|μs|ms|s|m|h` (leftmost-first order) -/
def unitLen : Bytes → Nat
  | 110 :: 115 :: _ => 2
  | 117 :: 115 :: _ => 2
  | 0xC2 :: 0xB5 :: 115 :: _ => 3
  | 0xCE :: 0xBC :: 115 :: _ => 3
  | 109 :: 115 :: _ => 2
  | 115 :: _ => 1
  | 109 :: _ => 1
  | 104 :: _ => 1
  | _ => 0

/-- one `[0-9]+(?:\.[0-9]+)?(?:unit)` -/
def durItemLen (l : Bytes) : Nat :=
  let n := spanLen isDigit l
  if n = 0 then 0 else
  let fr := match l.drop n with
    | 46 :: r => let m := spanLen isDigit r; if m > 0 then 1 + m else 0
    | _ => 0
  let u := unitLen (l.drop (n + fr))
  if u > 0 then n + fr + u
  else
    -- the optional fraction may be given back; then the unit would have to start at '.', impossible
    0

def durItems : Nat → Bytes → Nat
  | 0, _ => 0
  | fuel + 1, l =>
    let k := durItemLen l
    if k = 0 then 0 else k + durItems fuel (l.drop k)

/-- `[-+]?(?:[0-9]+(?:\.[0-9]+)?(?:ns|us|µs|μs|ms|s|m|h))+` -/
def durationMatch (l : Bytes) : Option Nat :=
  let s := signLen l
  let k := durItems l.length (l.drop s)
  if k > 0 then some (s + k) else none

def allHex (l : Bytes) : Bool := l.all isHex

/-- `\\[abfnrtv']|\\x[0-9a-fA-F]{2,2}|\\u[0-9a-fA-F]{4,4}|\\U[0-9a-fA-F]{8,8}|[^']` -/
def charMatch (l : Bytes) : Option Nat :=
  match l with
  | [] => none
  | 92 :: e :: r =>
    if [97, 98, 102, 110, 114, 116, 118, 39].contains e then some 2
    else if e = 120 && r.length ≥ 2 && allHex (r.take 2) then some 4
    else if e = 117 && r.length ≥ 4 && allHex (r.take 4) then some 6
    else if e = 85 && r.length ≥ 8 && allHex (r.take 8) then some 10
    else some 1                                   -- `[^']` matches the backslash
  | c :: _ => if c = 39 then none else some (Utf8.decodeRune l).2

/-- `[^`]+` -/
def backquoteMatch (l : Bytes) : Option Nat :=
  let n := spanLen (fun b => b != 96) l
  if n > 0 then some n else none

def digitVal (b : Nat) : Nat :=
  if isDigit b then b - 48 else if 97 ≤ b && b ≤ 102 then b - 87 else if 65 ≤ b && b ≤ 70 then b - 55 else 0

def natOfDigits (base : Nat) (l : Bytes) : Nat := l.foldl (fun acc b => acc * base + digitVal b) 0

/-- strconv.ParseInt(lexeme, 0, 64) on a lexeme of the integer syntax: none = range error -/
def parseInt0 (l : Bytes) : Option Int :=
  let neg := match l with | 45 :: _ => true | _ => false
  let body := l.drop (signLen l)
  let mag : Nat :=
    match body with
    | 48 :: x :: r => if (x = 120 || x = 88) && body.length ≥ 3 then natOfDigits 16 r else natOfDigits 8 (x :: r)
    | _ => natOfDigits 10 body
  if neg then (if mag ≤ 2 ^ 63 then some (-(mag : Int)) else none)
  else (if mag < 2 ^ 63 then some (mag : Int) else none)

/-- strconv.UnquoteChar(s, quote): (rune, tail); none = error -/
def unquoteChar (s : Bytes) (quote : Nat) : Option (Nat × Bytes) :=
  match s with
  | [] => none
  | c :: r =>
    if c = quote && (quote = 39 || quote = 34) then none
    else if c ≥ 0x80 then
      let (rn, size) := Utf8.decodeRune s
      some (rn, s.drop size)
    else if c ≠ 92 then some (c, r)
    else
      match r with
      | [] => none
      | e :: r2 =>
        if e = 97 then some (7, r2) else if e = 98 then some (8, r2) else if e = 102 then some (12, r2)
        else if e = 110 then some (10, r2) else if e = 114 then some (13, r2) else if e = 116 then some (9, r2)
        else if e = 118 then some (11, r2)
        else if e = 120 || e = 117 || e = 85 then
          let n := if e = 120 then 2 else if e = 117 then 4 else 8
          if r2.length < n then none
          else if !allHex (r2.take n) then none
          else
            let v := natOfDigits 16 (r2.take n)
            if e = 120 then some (v, r2.drop n)
            else if !Utf8.validRune v then none
            else some (v, r2.drop n)
        else if 48 ≤ e && e ≤ 55 then
          if r2.length < 2 then none
          else if !(r2.take 2).all isOct then none
          else
            let v := natOfDigits 8 (e :: r2.take 2)
            if v > 255 then none else some (v, r2.drop 2)
        else if e = 92 then some (92, r2)
        else if e = 39 || e = 34 then (if e ≠ quote then none else some (e, r2))
        else none

/-- the second loop of unquoteString: (bytes appended, rest) -/
def unquoteLoop : Nat → Bytes → Bytes → Bytes × Bytes
  | 0, str, res => (res, str)
  | fuel + 1, str, res =>
    if str = [] then (res, str)
    else if str.head? = some 13 || str.head? = some 10 then (res, str)   -- a raw line break ends the literal (fix D11)
    else match unquoteChar str 34 with
      | none => (res, str)
      | some (ch, tail) =>
        if ch = Utf8.runeError && str.length - tail.length = 1 then (res, str)
        else unquoteLoop fuel tail (res ++ Utf8.encodeRune ch)

/-- index at which the first loop of unquoteString stops, and why: 0 = end of input, 1 = line break or quote, 2 = break -/
def unquoteScan : Bytes → Nat → Nat × Nat
  | [], i => (i, 0)
  | b :: r, i =>
    if b = 13 || b = 10 || b = 34 then (i, 1)
    else if b = 92 || b ≥ 0x80 then (i, 2)
    else unquoteScan r (i + 1)

/-- text/terminal/string.go unquoteString (as fixed): (value or nil, consumed) -/
def unquoteString (b : Bytes) : Option Bytes × Nat :=
  match unquoteScan b 0 with
  | (i, 0) => (some b, i)          -- i = len(b); Readf is never called with an empty rest
  | (i, 1) => if i = 0 then (none, 0) else (some (b.take i), i)
  | (i, _) =>
    let (res, str) := unquoteLoop b.length (b.drop i) (b.take i)
    if str.length = b.length then (none, 0) else (some res, b.length - str.length)

inductive Terminal
  | rune (ch : Nat) (name : Bytes)            -- name = strconv.Quote(string(ch)), supplied by the harness
  | op (s : Bytes) (name : Bytes)
  | word (w : Bytes) (valId : Nat) (name : Bytes)
  | bool (t f : Bytes)
  | nil (s : Bytes)
  | integer
  | float
  | string (backquote : Bool)
  | char
  | duration
  | regexp (id : Nat) (tok name : Bytes) (hasGroup : Bool)
deriving Repr, DecidableEq, Inhabited

def upperAscii (w : Bytes) : Bytes := w.map (fun b => if 97 ≤ b && b ≤ 122 then b - 32 else b)

/-- strconv.Quote (used for the names in "was expecting ...") is not modelled: the quoted name is a
    construction parameter of the terminal, computed by the harness with the real strconv.Quote. -/
def nf (pos : Nat) (name : Bytes) : TermOut := .err ⟨pos, .notFound name⟩
def other (pos : Nat) (msg : String) : TermOut := .err ⟨pos, .other (tokOf msg)⟩

def Terminal.parse (P : Params) (f : File) (t : Terminal) (pos : Nat) : TermOut :=
  match t with
  | .rune ch name =>
    match readRune f pos ch with
    | none => .panic "ReadRune"
    | some (rp, true) => .node (.term (Utf8.encodeRune ch) (.rune ch) pos rp)
    | some (_, false) => nf pos name
  | .op s name =>
    match matchString f pos s with
    | none => .panic "MatchString"
    | some (rp, true) => .node (.term s (.str s) pos rp)
    | some (_, false) => nf pos name
  | .word w valId name =>
    match matchWord f pos w with
    | none => .panic "MatchWord"
    | some (rp, true) => .node (.term (upperAscii w) (.opaque valId) pos rp)
    | some (_, false) => nf pos name
  | .bool ts fs =>
    match matchWord f pos ts with
    | none => .panic "MatchWord"
    | some (rp, true) => .node (.term (tokOf "BOOL") (.bool true) pos rp)
    | some (_, false) =>
      match matchWord f pos fs with
      | none => .panic "MatchWord"
      | some (rp, true) => .node (.term (tokOf "BOOL") (.bool false) pos rp)
      | some (_, false) => nf pos (tokOf "boolean")
  | .nil s =>
    match matchWord f pos s with
    | none => .panic "MatchWord"
    | some (rp, true) => .node (.term (tokOf "NIL") .nil pos rp)
    | some (_, false) => nf pos s
  | .integer =>
    match readRegexp integerMatch f pos with
    | none => .panic "ReadRegexp"
    | some (rp, some lex) =>
      match readRune f rp 46 with
      | none => .panic "ReadRune"
      | some (_, true) => nf pos (tokOf "integer value")
      | some (_, false) =>
        match parseInt0 lex with
        | none => other pos "invalid integer value"
        | some v => .node (.term (tokOf "INTEGER") (.int v) pos rp)
    | some (_, none) => nf pos (tokOf "integer value")
  | .float =>
    match readRegexp floatMatch f pos with
    | none => .panic "ReadRegexp"
    | some (rp, some lex) =>
      if P.floatOk lex then .node (.term (tokOf "FLOAT") (.float lex) pos rp)
      else other pos "invalid float value"
    | some (_, none) => nf pos (tokOf "float value")
  | .duration =>
    match readRegexp durationMatch f pos with
    | none => .panic "ReadRegexp"
    | some (rp, some lex) =>
      match P.durErr lex with
      | none => .node (.term (tokOf "TIME_DURATION") (.dur lex) pos rp)
      | some msg => .err ⟨pos, .other msg⟩
    | some (_, none) => nf pos (tokOf "time duration")
  | .char =>
    match readRune f pos 39 with
    | none => .panic "ReadRune"
    | some (_, false) => nf pos (tokOf "char literal")
    | some (rp1, true) =>
      match readRegexp charMatch f rp1 with
      | none => .panic "ReadRegexp"
      | some (rp2, none) => other rp2 "was expecting one character"
      | some (rp2, some res) =>
        match readRune f rp2 39 with
        | none => .panic "ReadRune"
        | some (rp3, false) => other rp3 "was expecting \"'\""
        | some (rp3, true) =>
          match unquoteChar res 39 with
          | some (v, []) => .node (.term (tokOf "CHAR") (.rune v) pos rp3)
          | _ => other rp3 "invalid character value"
  | .string bq =>
    -- quote selection
    let first : Option (Nat × Nat) :=      -- (quote, readerPos after it)
      match readRune f pos 34 with
      | none => none
      | some (rp, true) => some (34, rp)
      | some (_, false) =>
        if bq then
          match readRune f pos 96 with
          | none => none
          | some (rp, true) => some (96, rp)
          | some (_, false) => some (0, pos)
        else some (0, pos)
    match first with
    | none => .panic "ReadRune"
    | some (0, _) => nf pos (tokOf "string literal")
    | some (quote, rp1) =>
      match readRune f rp1 quote with
      | none => .panic "ReadRune"
      | some (rp2, true) => .node (.term (tokOf "STRING") (.str []) pos rp2)
      | some (rp2, false) =>
        let body : Option (Nat × Option Bytes) :=
          if quote = 96 then readRegexp backquoteMatch f rp2 else readf unquoteString f rp2
        match body with
        | none => .panic "Readf"
        | some (rp3, value) =>
          match readRune f rp3 quote with
          | none => .panic "ReadRune"
          | some (rp4, false) => .err ⟨rp4, .other (tokOf "was expecting '" ++ [quote] ++ tokOf "'")⟩
          | some (rp4, true) => .node (.term (tokOf "STRING") (.str (value.getD [])) pos rp4)
  | .regexp id tok name hasGroup =>
    match readRegexp (fun rest => (P.regexp id rest).map (·.1)) f pos with
    | none => .panic "ReadRegexp"
    | some (rp, some m) =>
      if hasGroup then
        match P.regexp id (f.data.drop (pos - f.offset)) with
        | some (_, some g) => .node (.term tok (.str g) pos rp)
        | _ => .panic "Capturing group is invalid"
      else .node (.term tok (.str m) pos rp)
    | some (_, none) => nf pos name

end PV
