/-
  The parser core: combinator/*.go, parser/*.go, text/trim.go, parsley/context.go,
  parsley/result_cache.go, parsley/parse.go — transcribed statement by statement, as the tree stands
  after the `fix:` commits.

  `run cfg fuel g ctx pos st` mirrors `p.Parse(ctx, leftRecCtx, pos)`: `g` is the parser, `ctx` the
  left-recursion context (data.IntMap), `st` the mutable part of *parsley.Context (result cache,
  furthest error, call count) plus ghost fields that modelled code never reads.
  `fuel` bounds the recursion depth only; `none` = out of fuel, distinct from every parser outcome.
-/
import ParsleyVerif.Model.Terminal
namespace PV
open PV.Text

inductive SeqKind | seqOf | seqTry | seqFirstOrAll
deriving Repr, DecidableEq, Inhabited

structure SeqOpts where
  interp : Interp := .none
  name : Option Bytes := none        -- (*Sequence).Name
  single : Bool := false             -- HandleResult(ReturnSingle())
  token : Option Bytes := none       -- (*Sequence).Token
deriving Repr, DecidableEq, Inhabited

inductive G
  | term (t : Terminal)
  | empty
  | eof
  | ref (k : Nat)
  | memo (idx : Nat) (g : G)
  | any (gs : List G)
  | choice (gs : List G)
  | seq (k : SeqKind) (gs : List G) (o : SeqOpts)
  | many (g : G) (allowEmpty : Bool) (o : SeqOpts)
  | sepBy (v s : G) (allowEmpty : Bool) (o : SeqOpts)
  | optional (g : G)
  | name (g : G) (nm : Bytes)
  | ltrim (g : G) (m : WsMode)
  | rtrim (g : G) (m : WsMode)
  | single (g : G)
  | suppress (g : G)
deriving Repr, Inhabited

/-- combinator.Sentence -/
def G.sentence (g : G) : G := .seq .seqOf [g, .eof] { interp := .select 0 }

/-! ### data.IntMap (left-recursion context) and data.IntSet (curtailing parsers), value level
    (their slice/map level behaviour is C15's subject) -/
abbrev Ctx := List (Nat × Nat)

def Ctx.get (c : Ctx) (k : Nat) : Nat := ((c.find? (·.1 == k)).map (·.2)).getD 0
def Ctx.inc (c : Ctx) (k : Nat) : Ctx :=
  if c.any (·.1 == k) then c.map (fun kv => if kv.1 == k then (kv.1, kv.2 + 1) else kv) else c ++ [(k, 1)]
def Ctx.filter (c : Ctx) (keys : List Nat) : Ctx := List.filter (fun kv => keys.contains kv.1) c

/-- IntSet.Union on strictly ascending lists -/
def cpUnion : List Nat → List Nat → List Nat
  | [], b => b
  | a, [] => a
  | x :: xs, y :: ys =>
    if x < y then x :: cpUnion xs (y :: ys)
    else if y < x then y :: cpUnion (x :: xs) ys
    else x :: cpUnion xs ys

structure Out where
  res : Res
  cp : List Nat
  err : Option Err
deriving Repr, Inhabited

/-- parsley.Result + its key -/
structure CacheEntry where
  idx : Nat
  pos : Nat
  ctx : Ctx
  cp : List Nat
  err : Option Err
  res : Res
deriving Repr, Inhabited

inductive Ev
  | termFail (pos : Nat) (k : ErrKind)      -- a terminal or End was tried at `pos` and did not match
  | body (idx pos depth : Nat)              -- a memoized body starts; depth = activations of (idx,pos) including this one
  | hit (idx pos : Nat)
  | curtail (idx pos : Nat)
deriving Repr, Inhabited

structure St where
  cache : List CacheEntry := []
  ctxErr : Option Err := none
  calls : Nat := 0
  -- ghost (never read by modelled code)
  active : List (Nat × Nat) := []
  log : List Ev := []
deriving Repr, Inhabited

structure Cfg where
  env : List G
  file : File
  fileSet : FileSet
  params : Params
  ghost : Bool := true
  /-- work budget of the driver (0 = none): when the call count exceeds it `run` gives up with `none`.
      It can only turn an answer into `none`, so every theorem of the form "if run returns …" holds for
      every budget; the termination theorem (C02) is stated for `maxCalls = 0`. -/
  maxCalls : Nat := 0

def St.logEv (st : St) (cfg : Cfg) (e : Ev) : St := if cfg.ghost then { st with log := e :: st.log } else st

/-- (c *Context) SetError -/
def St.setError (st : St) : Option Err → St
  | none => st
  | some e =>
    match st.ctxErr with
    | none => { st with ctxErr := some e }
    | some c => if e.pos ≥ c.pos then { st with ctxErr := some e } else st

def St.regCall (st : St) : St := { st with calls := st.calls + 1 }

/-- `if err != nil && (cur == nil || err.Pos() >= cur.Pos()) { cur = err }` -/
def pickErr (cur new : Option Err) : Option Err :=
  match new with
  | none => cur
  | some e => match cur with
    | none => some e
    | some c => if e.pos ≥ c.pos then some e else cur

/-- ResultCache.Get -/
def cacheGet (c : List CacheEntry) (idx pos : Nat) (ctx : Ctx) : Option CacheEntry :=
  match c.find? (fun e => e.idx == idx && e.pos == pos) with
  | none => none
  | some e => if e.ctx.all (fun kv => !(kv.2 > ctx.get kv.1)) then some e else none

/-- ResultCache.Save (the map entry is overwritten) -/
def cacheSave (c : List CacheEntry) (e : CacheEntry) : List CacheEntry :=
  e :: c.filter (fun x => !(x.idx == e.idx && x.pos == e.pos))

/-! ### Sequence -/

structure SeqShape where
  lookup : Nat → Option G
  lenCheck : Nat → Bool
  token : Bytes
  interp : Interp
  single : Bool
  name : Option Bytes

def seqTok : Bytes := [83, 69, 81]
def manyTok : Bytes := [77, 65, 78, 89]
def sepByTok : Bytes := [83, 69, 80, 95, 66, 89]

def G.shape : G → Option SeqShape
  | .seq k gs o =>
    let l := gs.length
    some { lookup := fun i => gs[i]?,
           lenCheck := fun len => match k with
             | .seqOf => len == l
             | .seqTry => len > 0 && len ≤ l
             | .seqFirstOrAll => len == 1 || len == l,
           token := o.token.getD seqTok, interp := o.interp, single := o.single, name := o.name }
  | .many g ae o =>
    some { lookup := fun _ => some g, lenCheck := fun len => ae || len > 0,
           token := o.token.getD manyTok, interp := o.interp, single := o.single, name := o.name }
  | .sepBy v s ae o =>
    some { lookup := fun i => if i % 2 == 0 then some v else some s,
           lenCheck := fun len => (len == 0 && ae) || len % 2 == 1,
           token := o.token.getD sepByTok, interp := o.interp, single := o.single, name := o.name }
  | _ => none

/-- seqDefaultResultHandler -/
def handleResult (sh : SeqShape) (pos : Nat) (nodes : List Node) : Node :=
  match nodes with
  | [] => .nt sh.token [] pos pos sh.interp
  | [n] => if sh.single then n else .nt sh.token [n] n.pos n.rpos sh.interp
  | n :: rest => .nt sh.token (n :: rest) n.pos ((rest.getLast?).getD n).rpos sh.interp

/-- the fields of the `sequence` struct that survive between calls of `parse` -/
structure SeqSt where
  cp : List Nat := []
  result : Res := .nil
  err : Option Err := none
deriving Repr, Inhabited

abbrev RunFn := G → Ctx → Nat → St → Option (Out × St)

/-- the `for i, node := range rest { if s.parseNext(...) { return true } }` loop -/
def seqAlts (k : Node → SeqSt → St → Option (Bool × SeqSt × St)) :
    List Node → SeqSt → St → Option (Bool × SeqSt × St)
  | [], ss, st => some (false, ss, st)
  | n :: rest, ss, st =>
    match k n ss st with
    | none => none
    | some (true, ss, st) => some (true, ss, st)
    | some (false, ss, st) => seqAlts k rest ss st

/-- (s *sequence) parse(depth, ctx, leftRecCtx, pos, mergeCurtailingParsers), with parseNext inlined -/
def seqParse (r : RunFn) (sh : SeqShape) :
    Nat → Nat → List Node → Ctx → Nat → Bool → SeqSt → St → Option (Bool × SeqSt × St)
  | 0, _, _, _, _, _, _, _ => none
  | fuel + 1, depth, nodes, ctx, pos, merge, ss, st =>
    let step : Option (Out × St) :=
      match sh.lookup depth with
      | some g => r g ctx pos st.regCall
      | none => some (⟨.nil, [], none⟩, st)
    match step with
    | none => none
    | some (o, st) =>
      let ss := { ss with err := pickErr ss.err o.err }
      let ss := if merge then { ss with cp := cpUnion ss.cp o.cp } else ss
      match o.res with
      | .nil =>
        if sh.lenCheck depth then
          if depth > 0 then
            some ((match nodes.getLast? with | some l => l.token == eofTok | none => false),
                  { ss with result := appendNode ss.result (.one (handleResult sh pos nodes)) }, st)
          else
            some (false, { ss with result := appendNode ss.result (.one (handleResult sh pos [])) }, st)
        else some (false, ss, st)
      | res =>
        seqAlts (fun n ss st =>
            let consumed := n.rpos > pos
            seqParse r sh fuel (depth + 1) (nodes ++ [n]) (if consumed then [] else ctx) n.rpos
              (merge && !consumed) ss st)
          res.alts ss st

/-! ### Any / Choice -/

structure AltSt where
  cp : List Nat := []
  res : Res := .nil
  err : Option Err := none
  nf : Option Err := none        -- the last dropped "not found at own position" error
deriving Repr, Inhabited

/-- the error selection shared by Any and Choice -/
def altErr (pos : Nat) (a : AltSt) (e2 : Option Err) : AltSt :=
  match e2 with
  | none => a
  | some e2 =>
    if (match a.err with | none => true | some e => e2.pos ≥ e.pos) then
      if e2.pos > pos || !e2.kind.isNotFound then { a with err := some e2 } else { a with nf := some e2 }
    else a

def anyLoop (r : RunFn) (ctx : Ctx) (pos : Nat) : List G → AltSt → St → Option (AltSt × St)
  | [], a, st => some (a, st)
  | g :: gs, a, st =>
    match r g ctx pos st.regCall with
    | none => none
    | some (o, st) =>
      let a := { a with cp := cpUnion a.cp o.cp, res := appendNode a.res o.res }
      anyLoop r ctx pos gs (altErr pos a o.err) st

/-- returns (some out) when an alternative matched (early return) -/
def choiceLoop (r : RunFn) (ctx : Ctx) (pos : Nat) : List G → AltSt → St → Option (Option Out × AltSt × St)
  | [], a, st => some (none, a, st)
  | g :: gs, a, st =>
    match r g ctx pos st.regCall with
    | none => none
    | some (o, st) =>
      let a := altErr pos { a with cp := cpUnion a.cp o.cp } o.err
      if !o.res.isNil then some (some ⟨o.res, a.cp, none⟩, a, st.setError a.err)
      else choiceLoop r ctx pos gs a st

/-! ### trims -/

def wsToErr : Option (Nat × WsErr) → Option Err
  | none => none
  | some (p, k) => some ⟨p, .ws k⟩

/-- ast.SetReaderPos(node, f) with f = skip whitespaces; `ws` is the closure variable wsErr -/
def setRposNode (f : File) (m : WsMode) (n : Node) (ws : Option Err) : Node × Option Err :=
  match n with
  | .term t v p r => let (r', e) := skipWhitespaces f r m; (.term t v p r', wsToErr e)
  | .nt t c p r i => let (r', e) := skipWhitespaces f r m; (.nt t c p r' i, wsToErr e)
  | .empty p => let (p', e) := skipWhitespaces f p m; (.empty p', wsToErr e)
  | .eof p => (.eof p, ws)         -- EndNode.SetReaderPos does nothing: f is not called

def setRposList (f : File) (m : WsMode) : List Node → Option Err → List Node × Option Err
  | [], ws => ([], ws)
  | n :: rest, ws =>
    let (n', ws) := setRposNode f m n ws
    let (rest', ws) := setRposList f m rest ws
    (n' :: rest', ws)

def setRposRes (f : File) (m : WsMode) : Res → Res × Option Err
  | .nil => (.nil, none)
  | .one n => let (n', ws) := setRposNode f m n none; (.one n', ws)
  | .list l => let (l', ws) := setRposList f m l none; (.list l', ws)

def endErrMsg : Bytes := tokOf "was expecting the end of input"

/-! ### run -/

def run (cfg : Cfg) : Nat → G → Ctx → Nat → St → Option (Out × St)
  | 0, _, _, _, _ => none
  | fuel + 1, g, ctx, pos, st =>
    if cfg.maxCalls ≠ 0 ∧ st.calls > cfg.maxCalls then none else
    match g with
    | .term t =>
      match t.parse cfg.params cfg.file pos with
      | .node n => some (⟨.one n, [], none⟩, st)
      | .err e => some (⟨.nil, [], some e⟩, st.logEv cfg (.termFail e.pos e.kind))
      | .panic site => some (⟨.nil, [], some ⟨pos, .panic (tokOf site)⟩⟩, st)
    | .empty => some (⟨.one (.empty pos), [], none⟩, st)
    | .eof =>
      if isEOF cfg.file pos then some (⟨.one (.eof pos), [], none⟩, st)
      else some (⟨.nil, [], some ⟨pos, .other endErrMsg⟩⟩, st.logEv cfg (.termFail pos (.other endErrMsg)))
    | .ref k =>
      match cfg.env[k]? with
      | some g' => run cfg fuel g' ctx pos st
      | none => some (⟨.nil, [], some ⟨pos, .panic (tokOf "nil parser")⟩⟩, st)
    | .memo idx body =>
      match cacheGet st.cache idx pos ctx with
      | some e => some (⟨e.res, e.cp, e.err⟩, st.logEv cfg (.hit idx pos))
      | none =>
        if ctx.get idx > remaining cfg.file pos + Facts.curtailSlack then
          some (⟨.nil, [idx], none⟩, st.logEv cfg (.curtail idx pos))
        else
          let depth := (st.active.filter (fun a => a.1 == idx && a.2 == pos)).length + 1
          let st1 := ({ st with active := (idx, pos) :: st.active }).logEv cfg (.body idx pos depth)
          match run cfg fuel body (ctx.inc idx) pos st1 with
          | none => none
          | some (o, st2) =>
            let e : CacheEntry := { idx := idx, pos := pos, ctx := ctx.filter o.cp, cp := o.cp, err := o.err, res := o.res }
            some (o, { st2 with cache := cacheSave st2.cache e, active := st.active })
    | .any gs =>
      match anyLoop (run cfg fuel) ctx pos gs {} st with
      | none => none
      | some (a, st) =>
        if a.res.isNil then some (⟨.nil, a.cp, match a.err with | some e => some e | none => a.nf⟩, st)
        else some (⟨a.res, a.cp, none⟩, st.setError a.err)
    | .choice gs =>
      match choiceLoop (run cfg fuel) ctx pos gs {} st with
      | none => none
      | some (some o, _, st) => some (o, st)
      | some (none, a, st) => some (⟨.nil, a.cp, match a.err with | some e => some e | none => a.nf⟩, st)
    | .optional g' =>
      match run cfg fuel g' ctx pos st with
      | none => none
      | some (o, st) => some (⟨appendNode o.res (.one (.empty pos)), o.cp, o.err⟩, st)
    | .name g' nm =>
      match run cfg fuel g' ctx pos st with
      | none => none
      | some (o, st) =>
        match o.err with
        | some e =>
          if e.pos = pos && e.kind.isNotFound then some (⟨.nil, o.cp, some ⟨pos, .notFound nm⟩⟩, st)
          else some (⟨.nil, o.cp, some e⟩, st)
        | none =>
          if o.res.isNil then some (⟨.nil, o.cp, some ⟨pos, .notFound nm⟩⟩, st)
          else some (⟨o.res, o.cp, none⟩, st)
    | .single g' =>
      match run cfg fuel g' ctx pos st with
      | none => none
      | some (o, st) =>
        match o.err with
        | some e => some (⟨.nil, o.cp, some e⟩, st)
        | none =>
          match o.res with
          | .one (.nt _ [c] _ _ _) => some (⟨.one c, o.cp, none⟩, st)
          | res => some (⟨res, o.cp, none⟩, st)
    | .suppress g' =>
      match run cfg fuel g' ctx pos st with
      | none => none
      | some (o, st) => some (⟨o.res, o.cp, none⟩, st)
    | .ltrim g' m =>
      let (pos', ws) := skipWhitespaces cfg.file pos m
      let wsErr := wsToErr ws
      match run cfg fuel g' ctx pos' st with
      | none => none
      | some (o, st) =>
        let st := match st.ctxErr with
          | some ce => if ce.pos = pos' && ce.kind.isNotFound then st.setError (some ⟨pos, ce.kind⟩) else st
          | none => st
        match o.err with
        | some e =>
          match wsErr with
          | some w =>
            if e.pos > pos' then some (⟨.nil, [], some w⟩, st)
            else if e.kind.isNotFound then some (⟨o.res, o.cp, some ⟨pos, e.kind⟩⟩, st)
            else some (⟨o.res, o.cp, some e⟩, st)
          | none => some (⟨o.res, o.cp, some e⟩, st)
        | none =>
          match wsErr with
          | some w => some (⟨.nil, [], some w⟩, st)
          | none => some (⟨o.res, o.cp, none⟩, st)
    | .rtrim g' m =>
      match run cfg fuel g' ctx pos st with
      | none => none
      | some (o, st) =>
        match o.err with
        | some e =>
          -- a whitespace error keeps its position (fix D10); any other error moves past the whitespace
          let (errPos, _) := skipWhitespaces cfg.file e.pos m
          some (⟨o.res, o.cp, some (if !e.kind.isWs && errPos > e.pos then ⟨errPos, e.kind⟩ else e)⟩, st)
        | none =>
          let (res', ws) := setRposRes cfg.file m o.res
          match ws with
          | some w => some (⟨.nil, [], some w⟩, st)
          | none => some (⟨res', o.cp, none⟩, st)
    | g =>
      -- the Sequence family
      match g.shape with
      | none => none
      | some sh =>
        match seqParse (run cfg fuel) sh fuel 0 [] ctx pos true {} st with
        | none => none
        | some (_, ss, st) =>
          let (res, err, st) :=
            if ss.result.isNil then (Res.nil, ss.err, st) else (ss.result, none, st.setError ss.err)
          let err := match err, sh.name with
            | some e, some nm => if e.pos = pos && e.kind.isNotFound then some ⟨pos, .notFound nm⟩ else some e
            | e, _ => e
          some (⟨res, ss.cp, err⟩, st)

/-! ### parsley.Parse -/

structure ParseOut where
  res : Res                      -- the returned node (nil on error)
  err : Option Err               -- the error chosen by Parse
  msg : Option Bytes             -- the text of the returned error
  st : St
deriving Repr, Inhabited

def noMatchMsg : Bytes := tokOf "no match was found"
def failedPrefix : Bytes := tokOf "failed to parse the input: "

/-- FileSet.ErrorWithPosition(err).Error() -/
def errorWithPosition (fs : FileSet) (e : Err) : Bytes :=
  match fs.position e.pos with
  | .unknown => e.kind.msg
  | p => e.kind.msg ++ tokOf " at " ++ tokOf p.render

/-- parsley.Parse without transformation / static check (those passes are C13's subject) -/
def parse (cfg : Cfg) (fuel : Nat) (g : G) (st : St := {}) : Option ParseOut :=
  let pos0 := cfg.file.pos 0
  match run cfg fuel g [] pos0 st with
  | none => none
  | some (o, st) =>
    let err := if o.res.isNil && o.err.isNone then
        (match st.ctxErr with | some ce => some ce | none => some ⟨pos0, .other noMatchMsg⟩)
      else o.err
    match err with
    | some e =>
      let e := if !e.kind.isWs then
          (match st.ctxErr with | some ce => if ce.pos > e.pos then ce else e | none => e)
        else e
      some { res := .nil, err := some e, msg := some (failedPrefix ++ errorWithPosition cfg.fileSet e), st := st }
    | none => some { res := o.res, err := none, msg := none, st := st }

end PV
