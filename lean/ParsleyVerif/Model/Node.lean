/-
  ast: nodes, node lists, AppendNode (value level).  parsley.Error values.
-/
import ParsleyVerif.Model.Text
namespace PV
open PV.Text

def tokOf (s : String) : Bytes := s.toUTF8.toList.map UInt8.toNat

/-- node values.  Float and duration values are the parameter function applied to the lexeme. -/
inductive Val
  | rune (c : Nat)
  | str (b : Bytes)
  | int (i : Int)
  | float (lex : Bytes)
  | dur (lex : Bytes)
  | bool (b : Bool)
  | nil
  | opaque (id : Nat)
deriving Repr, DecidableEq, Inhabited

/-- interpreters are data; `custom id` gets its behaviour from a parameter of the evaluator -/
inductive Interp
  | none
  | select (i : Nat)
  | array
  | object
  | nilI
  | custom (id : Nat)
deriving Repr, DecidableEq, Inhabited

inductive Node
  | term (tok : Bytes) (val : Val) (pos rpos : Nat)
  | empty (pos : Nat)
  | eof (pos : Nat)
  | nt (tok : Bytes) (children : List Node) (pos rpos : Nat) (interp : Interp)
deriving Repr, Inhabited

namespace Node
def token : Node → Bytes
  | .term t _ _ _ => t
  | .empty _ => [69, 77, 80, 84, 89]   -- "EMPTY"
  | .eof _ => [69, 79, 70]             -- "EOF"
  | .nt t _ _ _ _ => t
def pos : Node → Nat
  | .term _ _ p _ => p | .empty p => p | .eof p => p | .nt _ _ p _ _ => p
def rpos : Node → Nat
  | .term _ _ _ r => r | .empty p => p | .eof p => p | .nt _ _ _ r _ => r
def isEmptyAt (p : Nat) : Node → Bool
  | .empty q => p == q
  | _ => false
end Node

def eofTok : Bytes := [69, 79, 70]

/-- a parser result: nil, one node, or an ast.NodeList (the distinction is observable) -/
inductive Res
  | nil
  | one (n : Node)
  | list (l : List Node)
deriving Repr, Inhabited

def Res.alts : Res → List Node
  | .nil => [] | .one n => [n] | .list l => l
def Res.isNil : Res → Bool
  | .nil => true | _ => false

/-- (nl *NodeList) Append(node) for a non-list node: an EMPTY node already present is not added again -/
def nlAppend1 (nl : List Node) (n : Node) : List Node :=
  match n with
  | .empty p => if nl.any (Node.isEmptyAt p) then nl else nl ++ [n]
  | _ => nl ++ [n]

/-- (nl *NodeList) Append(node): lists are flattened -/
def nlAppend (nl : List Node) : Res → List Node
  | .nil => nl                   -- not reachable from AppendNode
  | .one n => nlAppend1 nl n
  | .list l => l.foldl nlAppend1 nl

/-- ast.AppendNode -/
def appendNode : Res → Res → Res
  | .nil, b => b
  | a, .nil => a
  | .list l, b => .list (nlAppend l b)
  | .one n, b => .list (nlAppend [n] b)

/-! ### errors -/
inductive ErrKind
  | notFound (name : Bytes)          -- parsley.NotFoundError: "was expecting <name>"
  | ws (e : WsErr)                   -- whitespace errors of text/reader.go
  | other (msg : Bytes)              -- errors.New / NewErrorf
  | panic (site : Bytes)             -- a Go panic inside a terminal (unreachable on the domain: C08)
deriving Repr, DecidableEq, Inhabited

structure Err where
  pos : Nat
  kind : ErrKind
deriving Repr, DecidableEq, Inhabited

def ErrKind.isNotFound : ErrKind → Bool
  | .notFound _ => true | _ => false
def ErrKind.isWs : ErrKind → Bool
  | .ws _ => true | _ => false

def ErrKind.msg : ErrKind → Bytes
  | .notFound n => tokOf "was expecting " ++ n
  | .ws e => tokOf e.msg
  | .other m => m
  | .panic s => tokOf "panic: " ++ s

end PV
