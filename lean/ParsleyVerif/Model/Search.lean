/-
  Go's sort.Search, transcribed with its loop (src/sort/search.go):

      i, j := 0, n
      for i < j { h := int(uint(i+j) >> 1); if !f(h) { i = h + 1 } else { j = h } }
      return i

  Used by data/intset.go (sort.SearchInts), parsley/file_set.go and text/file.go.
-/
namespace PV

def goSearchLoop (f : Nat → Bool) : Nat → Nat → Nat → Nat
  | 0, i, _ => i
  | fuel + 1, i, j =>
    if i < j then
      let h := (i + j) / 2
      if !f h then goSearchLoop f fuel (h + 1) j else goSearchLoop f fuel i h
    else i

/-- sort.Search(n, f) -/
def goSearch (n : Nat) (f : Nat → Bool) : Nat := goSearchLoop f (n + 1) 0 n

/-- sort.SearchInts(a, x) = sort.Search(len(a), func(i) bool { return a[i] >= x }) -/
def goSearchInts (a : List Int) (x : Int) : Nat :=
  goSearch a.length (fun i => decide (a.getD i 0 ≥ x))

end PV
