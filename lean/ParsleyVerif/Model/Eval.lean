/-
  parsley/evaluate.go, ast/nonterminal_node.go (Value), ast/interpreter/interpreter.go, parser/end.go (Value).
  Evaluation of parse results.  Go panics (nil interpreter, Select out of range, failed type assertions in
  Object) are explicit `.panic` outcomes.  Interpreters outside the library's set (`custom id`) get their
  behaviour from a parameter.
-/
import ParsleyVerif.Model.Run
namespace PV
open PV.Text

inductive V
  | nil
  | int (i : Int)
  | str (b : Bytes)
  | rune (c : Nat)
  | bool (b : Bool)
  | float (lex : Bytes)
  | dur (lex : Bytes)
  | opaque (id : Nat)
  | arr (l : List V)
  | obj (kvs : List (Bytes × V))      -- a Go map[string]interface{}: later writes replace earlier ones
deriving Repr, Inhabited

inductive EvalOut
  | ok (v : V)
  | err (pos : Nat) (msg : Bytes)
  | panic (site : String)
deriving Repr, Inhabited

def Val.toV : Val → V
  | .rune c => .rune c
  | .str b => .str b
  | .int i => .int i
  | .float l => .float l
  | .dur l => .dur l
  | .bool b => .bool b
  | .nil => .nil
  | .opaque i => .opaque i

def noValueMsg : Bytes := tokOf "node does not have a value"

/-- map assignment m[k] = v -/
def objSet : List (Bytes × V) → Bytes → V → List (Bytes × V)
  | [], k, v => [(k, v)]
  | (k', v') :: r, k, v => if k = k' then (k, v) :: r else (k', v') :: objSet r k v

/-- behaviour of a custom interpreter: it gets the node's children and an evaluator for them -/
abbrev CustomEval := Nat → (children : List Node) → (pos : Nat) → (Node → EvalOut) → EvalOut

/-- interpreter.Array: every second child (`for i := 0; i < len(nodes); i += 2`) -/
def evalArray (ev : Node → EvalOut) : List Node → List V → EvalOut
  | [], acc => .ok (.arr acc)
  | [c], acc => match ev c with | .ok v => .ok (.arr (acc ++ [v])) | e => e
  | c :: _ :: rest, acc => match ev c with | .ok v => evalArray ev rest (acc ++ [v]) | e => e

/-- one key/value node of interpreter.Object: key = child 0, value = child 2 -/
def evalKeyValue (ev : Node → EvalOut) (kv : Node) (acc : List (Bytes × V)) : Except EvalOut (List (Bytes × V)) :=
  match kv with
  | .nt _ kcs _ _ _ =>
    match kcs[0]? with
    | none => .error (.panic "index out of range")
    | some kn =>
      match ev kn with
      | .ok key =>
        match kcs[2]? with
        | none => .error (.panic "index out of range")
        | some vn =>
          match ev vn with
          | .ok v =>
            match key with
            | .str k => .ok (objSet acc k v)
            | _ => .error (.panic "interface conversion: key is not a string")
          | e => .error e
      | e => .error e
  | _ => .error (.panic "interface conversion: not a NonTerminalNode")

/-- interpreter.Object: every second child is a key/value node -/
def evalObject (ev : Node → EvalOut) : List Node → List (Bytes × V) → EvalOut
  | [], acc => .ok (.obj acc)
  | [kv], acc => match evalKeyValue ev kv acc with | .ok acc' => .ok (.obj acc') | .error e => e
  | kv :: _ :: rest, acc => match evalKeyValue ev kv acc with | .ok acc' => evalObject ev rest acc' | .error e => e

/-- parsley.EvaluateNode -/
def evalNode (ce : CustomEval) : Nat → Node → EvalOut
  | 0, _ => .panic "out of fuel"
  | _ + 1, .term _ v _ _ => .ok v.toV
  | _ + 1, .empty p => .err p noValueMsg
  | _ + 1, .eof _ => .ok .nil
  | fuel + 1, .nt _ cs pos _ interp =>
    match interp with
    | .none => .panic "missing interpreter for node"
    | .nilI => .ok .nil
    | .select i =>
      match cs[i]? with
      | none => .panic "node index is out of bounds"
      | some c => evalNode ce fuel c
    | .array => evalArray (evalNode ce fuel) cs []
    | .object => evalObject (evalNode ce fuel) cs []
    | .custom id => ce id cs pos (evalNode ce fuel)

/-- the root handed to EvaluateNode by parsley.Evaluate: a NodeList has no Value method -/
def evalRes (ce : CustomEval) (fuel : Nat) : Res → EvalOut
  | .nil => .panic "nil node"
  | .one n => evalNode ce fuel n
  | .list l => match l with
    | n :: _ => .err n.pos noValueMsg
    | [] => .panic "empty list"

/-- parsley.Evaluate: Parse, then EvaluateNode, errors rendered with their position -/
inductive EvaluateOut
  | value (v : V)
  | error (msg : Bytes)
  | panic (site : String)
deriving Repr, Inhabited

def evaluate (cfg : Cfg) (ce : CustomEval) (fuel : Nat) (g : G) : Option EvaluateOut :=
  match parse cfg fuel g with
  | none => none
  | some p =>
    match p.msg with
    | some m => some (.error m)
    | none =>
      match evalRes ce fuel p.res with
      | .ok v => some (.value v)
      | .err pos msg => some (.error (errorWithPosition cfg.fileSet ⟨pos, .other msg⟩))
      | .panic s => some (.panic s)

end PV
