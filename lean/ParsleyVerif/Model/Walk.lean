/-
  parsley/walk.go, parsley/static_check.go, parsley/transform.go and the Walk / StaticCheck / Transform
  methods of ast.NonTerminalNode and ast.NodeList (property C13).

  Trees carry what the passes look at: an identity, the interpreter (with its capabilities: is it a
  StaticChecker? a NodeTransformer?), the schema slot and the children.  The behaviour of checkers and
  transformers is a parameter, so "a failure injected at any node" is a quantified function.
-/
namespace PV.Walk

structure ICap where
  checker : Bool
  transformer : Bool
deriving Repr, DecidableEq, Inhabited

inductive T
  | leaf (id : Nat)                                              -- terminal / EMPTY node
  | nt (id : Nat) (interp : Option Nat) (schema : Option Nat) (children : List T)
  | list (id : Nat) (items : List T)                             -- ast.NodeList (behaves as its first element)
deriving Repr, Inhabited

def T.id : T → Nat
  | .leaf i => i | .nt i _ _ _ => i | .list i _ => i

def T.schema : T → Option Nat
  | .nt _ _ s _ => s
  | _ => none

/-! ### Walk -/
mutual
/-- parsley.Walk(node, f): ids on which f was called, in order, and the result -/
def walk (stop : Nat → Bool) : T → List Nat × Bool
  | .leaf i => ([i], stop i)
  | .nt i _ _ cs =>
    match walkList stop cs with
    | (tr, true) => (tr, true)
    | (tr, false) => (tr ++ [i], stop i)
  | .list i items =>
    match items with
    | [] => ([i], stop i)             -- (nl[0] would panic in Go; lists are never empty)
    | first :: _ =>
      match walk stop first with
      | (tr, true) => (tr, true)
      | (tr, false) => (tr ++ [i], stop i)
def walkList (stop : Nat → Bool) : List T → List Nat × Bool
  | [] => ([], false)
  | c :: rest =>
    match walk stop c with
    | (tr, true) => (tr, true)
    | (tr, false) =>
      match walkList stop rest with
      | (tr2, r) => (tr ++ tr2, r)
end

/-! ### StaticCheck -/
/-- behaviour of interpreter `i` as a StaticChecker on a node: a schema, or an error code -/
abbrev Checker := Nat → T → Except Nat (Option Nat)

mutual
/-- parsley.StaticCheck: the tree afterwards (schemas are stored on the nodes) and the first error -/
def check (caps : Nat → ICap) (chk : Checker) : T → T × Option Nat
  | .leaf i => (.leaf i, none)
  | .nt i interp schema cs =>
    match checkList caps chk cs with
    | (cs', some e) => (.nt i interp schema cs', some e)
    | (cs', none) =>
      match interp with
      | some k =>
        if (caps k).checker then
          match chk k (.nt i interp schema cs') with
          | .ok s => (.nt i interp s cs', none)
          | .error e => (.nt i interp schema cs', some e)
        else (.nt i interp schema cs', none)
      | none => (.nt i interp schema cs', none)
  | .list i items =>
    match items with
    | [] => (.list i [], none)
    | first :: rest =>
      match check caps chk first with
      | (f', e) => (.list i (f' :: rest), e)
def checkList (caps : Nat → ICap) (chk : Checker) : List T → List T × Option Nat
  | [] => ([], none)
  | c :: rest =>
    match check caps chk c with
    | (c', some e) => (c' :: rest, some e)
    | (c', none) =>
      match checkList caps chk rest with
      | (rest', e) => (c' :: rest', e)
end

/-! ### Transform -/
abbrev Transformer := Nat → T → Except Nat T

mutual
/-- parsley.Transform -/
def transform (caps : Nat → ICap) (tr : Transformer) : T → Except Nat T
  | .leaf i => .ok (.leaf i)
  | .list i items => .ok (.list i items)          -- a NodeList is not Transformable
  | .nt i interp schema cs =>
    match interp with
    | some k =>
      if (caps k).transformer then tr k (.nt i interp schema cs)
      else match transformList caps tr cs with
        | .ok cs' => .ok (.nt i interp schema cs')
        | .error e => .error e
    | none =>
      match transformList caps tr cs with
      | .ok cs' => .ok (.nt i interp schema cs')
      | .error e => .error e
def transformList (caps : Nat → ICap) (tr : Transformer) : List T → Except Nat (List T)
  | [] => .ok []
  | c :: rest =>
    match transform caps tr c with
    | .error e => .error e
    | .ok c' =>
      match transformList caps tr rest with
      | .error e => .error e
      | .ok rest' => .ok (c' :: rest')
end

end PV.Walk
