/-
  text/file.go, parsley/file_set.go, text/reader.go, text/wsmode.go.

  Every reader primitive computes its own cursor `cur = pos - offset` and applies its own guards, as
  in reader.go.  Every slice index the Go code evaluates goes through `[i]?`; an index outside the
  slice is the outcome `none` (a Go run-time panic), never a default value, so "nothing outside the
  file is read" is the theorem "the primitive is never `none` on its domain" (C09).
  Domain: `offset ≤ pos` (a position below the file's base offset makes the Go cursor negative; the
  model answers `none` there and no theorem speaks about it).
-/
import ParsleyVerif.Model.Search
import ParsleyVerif.Model.Utf8
import ParsleyVerif.Generated.Facts
namespace PV.Text

abbrev Bytes := List Nat

/-- bytes.Replace(data, "\r\n", "\n", -1): left to right, non overlapping -/
def normCRLF : Bytes → Bytes
  | 13 :: 10 :: r => 10 :: normCRLF r
  | b :: r => b :: normCRLF r
  | [] => []

structure File where
  name : String
  data : Bytes          -- after normalisation
  offset : Nat
deriving Repr, Inhabited

def File.len (f : File) : Nat := f.data.length

/-- text.NewFile -/
def newFile (name : String) (raw : Bytes) : File :=
  { name := name, data := normCRLF raw, offset := Facts.newFileOffset }

/-- (f *File) Pos(cur) -/
def File.pos (f : File) (cur : Nat) : Nat := f.offset + cur

/-- setLines: `lines = [0]`, then `offset+1` for every '\n' -/
def linesFrom : Bytes → Nat → List Nat
  | [], _ => []
  | b :: r, off => if b = 10 then (off + 1) :: linesFrom r (off + 1) else linesFrom r (off + 1)

def File.lines (f : File) : List Nat := 0 :: linesFrom f.data 0

inductive PosResult
  | unknown                                   -- parsley.NilPosition
  | at_ (file : String) (line col : Nat)
  | panic                                      -- index out of range in the Go code
deriving Repr, DecidableEq, Inhabited

/-- (f *File) Position(pos) -/
def File.position (f : File) (pos : Nat) : PosResult :=
  if pos > f.len then .unknown
  else
    let ls := f.lines
    let s := goSearch ls.length (fun i => decide (ls.getD i 0 > pos))
    if s = 0 then .panic        -- i = -1
    else
      match ls[s - 1]? with
      | some l => .at_ f.name (s - 1 + 1) (pos - l + 1)
      | none => .panic

structure FileSet where
  pos : Nat := Facts.fileSetFirstPos
  files : List File := []
  offsets : List Nat := []
deriving Repr, Inhabited

/-- (fs *FileSet) AddFile(f): returns the file as it is after SetOffset -/
def FileSet.addFile (fs : FileSet) (f : File) : FileSet × File :=
  let f' := { f with offset := fs.pos }
  ({ pos := fs.pos + f.len + Facts.fileSetGap, files := fs.files ++ [f'], offsets := fs.offsets ++ [fs.pos] }, f')

/-- (fs *FileSet) Position(pos) -/
def FileSet.position (fs : FileSet) (p : Nat) : PosResult :=
  if p = 0 ∨ p ≥ fs.pos then .unknown
  else
    let s := goSearch fs.offsets.length (fun i => decide (fs.offsets.getD i 0 > p))
    if s = 0 then .panic
    else
      match fs.files[s - 1]?, fs.offsets[s - 1]? with
      | some f, some o => f.position (p - o)
      | _, _ => .panic

def PosResult.render : PosResult → String
  | .unknown => "unknown"
  | .at_ f l c => if f ≠ "" then s!"{f}:{l}:{c}" else s!"{l}:{c}"
  | .panic => "panic"

/-! ### Reader -/

inductive WsMode | none | spaces | spacesNl | forceNl
deriving Repr, DecidableEq, Inhabited

def isWs (b : Nat) : Bool := Facts.wsBytes.contains b
def isBreak (b : Nat) : Bool := Facts.wsBreakBytes.contains b

def isWordByte (b : Nat) : Bool :=
  (97 ≤ b && b ≤ 122) || (65 ≤ b && b ≤ 90) || (48 ≤ b && b ≤ 57) || b = 95

/-- ReadRune(pos, ch) -/
def readRune (f : File) (pos ch : Nat) : Option (Nat × Bool) :=
  if pos < f.offset then none else
  let cur := pos - f.offset
  if cur ≥ f.len then some (pos, false)
  else if ch < 0x80 then
    match f.data[cur]? with
    | none => none
    | some b => if ch = b then some (f.pos (cur + 1), true) else some (pos, false)
  else
    let (r, w) := Utf8.decodeRune (f.data.drop cur)
    if r = ch then some (f.pos (cur + w), true) else some (pos, false)

/-- MatchString(pos, str); `str = []` is the documented panic -/
def matchString (f : File) (pos : Nat) (str : Bytes) : Option (Nat × Bool) :=
  if str = [] then none else
  if pos < f.offset then none else
  let cur := pos - f.offset
  if str.length + cur > f.data.length then some (pos, false)
  else if str.isPrefixOf (f.data.drop cur) then some (f.pos (cur + str.length), true)
  else some (pos, false)

/-- the byte comparison loop of MatchWord: none = panic (non ASCII word byte, or index out of range) -/
def matchWordLoop (data : Bytes) (cur : Nat) : Bytes → Nat → Option Bool
  | [], _ => some true
  | b :: r, i =>
    if b ≥ 0x80 then none
    else match data[cur + i]? with
      | none => none
      | some d => if b ≠ d then some false else matchWordLoop data cur r (i + 1)

/-- MatchWord(pos, word) -/
def matchWord (f : File) (pos : Nat) (word : Bytes) : Option (Nat × Bool) :=
  if word = [] then none else
  if pos < f.offset then none else
  let cur := pos - f.offset
  if word.length + cur > f.data.length then some (pos, false)
  else
    match matchWordLoop f.data cur word 0 with
    | none => none
    | some false => some (pos, false)
    | some true =>
      if f.data.length - cur - word.length = 0 then some (f.pos (cur + word.length), true)
      else match f.data[cur + word.length]? with
        | none => none
        | some d => if !isWordByte d then some (f.pos (cur + word.length), true) else some (pos, false)

/-- ReadRegexp(pos, expr).  The regexp engine is a parameter: `engine rest` is the length of the
    anchored leftmost-first match of the expression on `rest`, if any (regexp.FindIndex(...)[1]). -/
def readRegexp (engine : Bytes → Option Nat) (f : File) (pos : Nat) : Option (Nat × Option Bytes) :=
  if pos < f.offset then none else
  let cur := pos - f.offset
  if cur ≥ f.len then some (pos, none)
  else
    match engine (f.data.drop cur) with
    | none => some (pos, none)
    | some m =>
      if cur + m > f.data.length then none       -- slice bounds out of range
      else some (f.pos (cur + m), some ((f.data.drop cur).take m))

/-- Readf(pos, fn): fn returns (value or nil, nextPos) -/
def readf (fn : Bytes → Option Bytes × Nat) (f : File) (pos : Nat) : Option (Nat × Option Bytes) :=
  if pos < f.offset then none else
  let cur := pos - f.offset
  if cur ≥ f.len then some (pos, none)
  else
    let (value, nextPos) := fn (f.data.drop cur)
    if nextPos = 0 then
      if value.isSome then none else some (pos, none)
    else if nextPos < (value.getD []).length ∨ cur + nextPos > f.len then none
    else some (f.pos (cur + nextPos), value)

/-- Remaining(pos) -/
def remaining (f : File) (pos : Nat) : Nat := f.len - (pos - f.offset)

/-- IsEOF(pos) -/
def isEOF (f : File) (pos : Nat) : Bool := pos - f.offset ≥ f.len

inductive WsErr | noneErr | forceNlErr | spacesErr
deriving Repr, DecidableEq, Inhabited

def WsErr.msg : WsErr → String
  | .noneErr => "whitespaces are not allowed"
  | .forceNlErr => "was expecting a new line"
  | .spacesErr => "new line is not allowed"

/-- the loop of SkipWhitespaces: returns (cur, nlPos) with the `nlPos == 0` sentinel as in the code -/
def skipLoop (f : File) : Bytes → Nat → Nat → Nat × Nat
  | [], cur, nl => (cur, nl)
  | b :: r, cur, nl =>
    if isWs b then skipLoop f r (cur + 1) (if isBreak b ∧ nl = 0 then f.pos cur else nl)
    else (cur, nl)

/-- SkipWhitespaces(pos, mode): (new position, error with its position) -/
def skipWhitespaces (f : File) (pos : Nat) (mode : WsMode) : Nat × Option (Nat × WsErr) :=
  let cur0 := pos - f.offset
  let (cur, nl) := skipLoop f (f.data.drop cur0) cur0 0
  if mode = .none ∧ cur > cur0 then (f.pos cur, some (pos, .noneErr))
  else if mode = .forceNl ∧ nl = 0 then (f.pos cur, some (f.pos cur, .forceNlErr))
  else if mode = .spaces ∧ nl > 0 then (f.pos cur, some (nl, .spacesErr))
  else (f.pos cur, none)

end PV.Text
