/-
  Slice-level model of data/intset.go and map-heap model of data/intmap.go (property C15).

  Go slices are modelled explicitly: a heap of arrays and a slice header (array, len, cap);
  `append` writes in place when len < cap and reallocates otherwise (the growth policy is a
  parameter: every theorem holds for every policy).  Go maps are modelled as handles into a
  heap of finite maps (kept as key-sorted association lists: a Go map has no order, so any
  canonical representation is a faithful abstraction of its value); a write through a handle
  changes the object every holder of the handle sees.
  Every function below is a statement-by-statement transcription; aliasing bugs (the pinned
  `Insert`, kept as `insertPinned`) are expressible.
-/
import ParsleyVerif.Model.Search
namespace PV.Data

structure Slice where
  arr : Nat
  len : Nat
  cap : Nat
deriving Repr, DecidableEq, Inhabited

abbrev Heap := List (List Int)

def cells (h : Heap) (a : Nat) : List Int := h.getD a []

/-- the elements a holder of slice `s` sees -/
def view (h : Heap) (s : Slice) : List Int := (cells h s.arr).take s.len

def writeCell (h : Heap) (a i : Nat) (v : Int) : Heap := h.modify a (fun c => c.set i v)

def setCells (h : Heap) (a : Nat) (c : List Int) : Heap := h.modify a (fun _ => c)

/-- make([]int, len, cap) -/
def make (h : Heap) (len cap : Nat) : Heap × Slice :=
  (h ++ [List.replicate cap 0], { arr := h.length, len := len, cap := cap })

/-- append(s, v) with growth policy `grow` -/
def append (grow : Nat → Nat) (h : Heap) (s : Slice) (v : Int) : Heap × Slice :=
  if s.len < s.cap then
    (writeCell h s.arr s.len v, { s with len := s.len + 1 })
  else
    let cap' := max (grow s.cap) (s.len + 1)
    (h ++ [view h s ++ [v] ++ List.replicate (cap' - (s.len + 1)) 0],
     { arr := h.length, len := s.len + 1, cap := cap' })

/-- copy(dst, src) where dst and src are slices of the same array (memmove semantics):
    copy(data[index+1:], data[index:]) on a slice of length n+1 -/
def copyShift (c : List Int) (index n : Nat) : List Int :=
  c.take (index + 1) ++ (c.drop index).take (n - index) ++ c.drop (n + 1)

/-- copy(dst, src), dst a fresh slice of length ≥ len(src): cell-wise -/
def copyInto (h : Heap) (dst src : Slice) : Heap :=
  setCells h dst.arr (view h src ++ (cells h dst.arr).drop src.len)

/-- (i *IntSet) insertValue(val) -/
def insertValue (grow : Nat → Nat) (h : Heap) (s : Slice) (val : Int) : Heap × Slice :=
  let index := goSearchInts (view h s) val
  if index < s.len ∧ (view h s).getD index 0 = val then (h, s)
  else
    let (h1, s1) := append grow h s 0
    let h2 := setCells h1 s1.arr (copyShift (cells h1 s1.arr) index s.len)
    let h3 := writeCell h2 s1.arr index val
    (h3, s1)

/-- NewIntSet(values...) -/
def newIntSet (grow : Nat → Nat) (h : Heap) (values : List Int) : Heap × Slice :=
  let (h0, s0) := make h 0 values.length
  values.foldl (fun (p : Heap × Slice) v => insertValue grow p.1 p.2 v) (h0, s0)

/-- (i IntSet) Insert(val), as fixed: inserts into a copy -/
def insert (grow : Nat → Nat) (h : Heap) (s : Slice) (val : Int) : Heap × Slice :=
  if s.len = 0 then
    (h ++ [[val]], { arr := h.length, len := 1, cap := 1 })
  else
    let (h1, s2) := make h s.len (s.len + 1)
    let h2 := copyInto h1 s2 s
    insertValue grow h2 s2 val

/-- the pinned Insert (`i2 := i; i2.insertValue(val)`): kept to show the model can express the defect -/
def insertPinned (grow : Nat → Nat) (h : Heap) (s : Slice) (val : Int) : Heap × Slice :=
  if s.len = 0 then
    (h ++ [[val]], { arr := h.length, len := 1, cap := 1 })
  else insertValue grow h s val

/-- the merge loop of Union; `fuel` bounds the iterations (n1 + n2 strictly grows) -/
def unionLoop (grow : Nat → Nat) (a b : List Int) : Nat → Nat → Nat → Heap → Slice → Heap × Slice
  | 0, _, _, h, s3 => (h, s3)
  | fuel + 1, n1, n2, h, s3 =>
    if n1 < a.length ∨ n2 < b.length then
      if n2 ≥ b.length ∨ (n1 < a.length ∧ a.getD n1 0 < b.getD n2 0) then
        let (h', s') := append grow h s3 (a.getD n1 0)
        unionLoop grow a b fuel (n1 + 1) n2 h' s'
      else if n1 ≥ a.length ∨ (n2 < b.length ∧ b.getD n2 0 < a.getD n1 0) then
        let (h', s') := append grow h s3 (b.getD n2 0)
        unionLoop grow a b fuel n1 (n2 + 1) h' s'
      else
        let (h', s') := append grow h s3 (a.getD n1 0)
        unionLoop grow a b fuel (n1 + 1) (n2 + 1) h' s'
    else (h, s3)

/-- (i IntSet) Union(i2) -/
def union (grow : Nat → Nat) (h : Heap) (s s2 : Slice) : Heap × Slice :=
  if s2.len = 0 then (h, s)
  else if s.len = 0 then (h, s2)
  else
    let (h1, s3) := make h 0 (s.len + s2.len)
    unionLoop grow (view h s) (view h s2) (s.len + s2.len + 1) 0 0 h1 s3

/-! ### IntMap -/

abbrev FMap := List (Int × Int)          -- strictly ascending keys
abbrev MHeap := List FMap

def mget (m : FMap) (k : Int) : Option Int := (m.find? (·.1 = k)).map (·.2)

def mset : FMap → Int → Int → FMap
  | [], k, v => [(k, v)]
  | (k', v') :: r, k, v =>
    if k < k' then (k, v) :: (k', v') :: r
    else if k = k' then (k, v) :: r
    else (k', v') :: mset r k v

def mobj (mh : MHeap) (i : Nat) : FMap := mh.getD i []
def mwrite (mh : MHeap) (i : Nat) (k v : Int) : MHeap := mh.modify i (fun m => mset m k v)

/-- NewIntMap(data) on a map literal built by the caller for this call -/
def newIntMap (mh : MHeap) (kvs : List (Int × Int)) : MHeap × Nat :=
  (mh ++ [kvs.foldl (fun m kv => mset m kv.1 kv.2) []], mh.length)

/-- clone -/
def mclone (mh : MHeap) (i : Nat) : MHeap × Nat :=
  let fresh := mh.length
  ((mobj mh i).foldl (fun mh' kv => mwrite mh' fresh kv.1 kv.2) (mh ++ [[]]), fresh)

/-- Inc -/
def inc (mh : MHeap) (i : Nat) (k : Int) : MHeap × Nat :=
  let (mh1, i2) := mclone mh i
  match mget (mobj mh1 i2) k with
  | none => (mwrite mh1 i2 k 1, i2)
  | some v => (mwrite mh1 i2 k (v + 1), i2)

/-- the body of the closure Filter passes to keys.Each -/
def filterStep (fresh i : Nat) (mh' : MHeap) (key : Int) : MHeap :=
  match mget (mobj mh' i) key with
  | some v => mwrite mh' fresh key v
  | none => mh'

/-- Filter(keys) -/
def filter (mh : MHeap) (i : Nat) (keys : List Int) : MHeap × Nat :=
  let fresh := mh.length
  (keys.foldl (filterStep fresh i) (mh ++ [[]]), fresh)

/-- Get -/
def get (mh : MHeap) (i : Nat) (k : Int) : Int := (mget (mobj mh i) k).getD 0

/-! ### the state machine over a pool of previously produced values -/

inductive Val
  | set (s : Slice)
  | map (i : Nat)
deriving Repr, Inhabited

inductive Op
  | newSet (vs : List Int)
  | insert (i : Nat) (v : Int)
  | union (i j : Nat)
  | len (i : Nat)
  | each (i : Nat)
  | newMap (kvs : List (Int × Int))
  | inc (i : Nat) (k : Int)
  | filter (i : Nat) (s : Nat)
  | get (i : Nat) (k : Int)
  | keys (i : Nat)
  | eachMap (i : Nat)
deriving Repr, Inhabited

inductive Out
  | none                       -- the operation produced a new pool value
  | int (n : Int)
  | ints (l : List Int)
  | pairs (l : List (Int × Int))
  | bad                        -- ill-typed operation (the harness never generates one)
deriving Repr, DecidableEq, Inhabited

structure St where
  heap : Heap := []
  maps : MHeap := []
  pool : List Val := []
deriving Inhabited

def St.setAt (st : St) (i : Nat) : Option Slice :=
  match st.pool[i]? with | some (.set s) => some s | _ => none
def St.mapAt (st : St) (i : Nat) : Option Nat :=
  match st.pool[i]? with | some (.map m) => some m | _ => none

def step (grow : Nat → Nat) (st : St) : Op → St × Out
  | .newSet vs =>
    let (h, s) := newIntSet grow st.heap vs
    ({ st with heap := h, pool := st.pool ++ [.set s] }, .none)
  | .insert i v =>
    match st.setAt i with
    | some s => let (h, s') := insert grow st.heap s v
                ({ st with heap := h, pool := st.pool ++ [.set s'] }, .none)
    | none => (st, .bad)
  | .union i j =>
    match st.setAt i, st.setAt j with
    | some s, some s2 => let (h, s') := union grow st.heap s s2
                         ({ st with heap := h, pool := st.pool ++ [.set s'] }, .none)
    | _, _ => (st, .bad)
  | .len i => match st.setAt i with | some s => (st, .int s.len) | none => (st, .bad)
  | .each i => match st.setAt i with | some s => (st, .ints (view st.heap s)) | none => (st, .bad)
  | .newMap kvs =>
    let (mh, m) := newIntMap st.maps kvs
    ({ st with maps := mh, pool := st.pool ++ [.map m] }, .none)
  | .inc i k =>
    match st.mapAt i with
    | some m => let (mh, m') := inc st.maps m k
                ({ st with maps := mh, pool := st.pool ++ [.map m'] }, .none)
    | none => (st, .bad)
  | .filter i j =>
    match st.mapAt i, st.setAt j with
    | some m, some s => let (mh, m') := filter st.maps m (view st.heap s)
                        ({ st with maps := mh, pool := st.pool ++ [.map m'] }, .none)
    | _, _ => (st, .bad)
  | .get i k => match st.mapAt i with | some m => (st, .int (get st.maps m k)) | none => (st, .bad)
  | .keys i => match st.mapAt i with
    | some m => (st, .ints ((mobj st.maps m).map (·.1))) | none => (st, .bad)
  | .eachMap i => match st.mapAt i with
    | some m => (st, .pairs (mobj st.maps m)) | none => (st, .bad)

/-- what a holder of pool value `v` reads in state `st` -/
inductive AVal
  | set (l : List Int)
  | map (m : FMap)
deriving Repr, DecidableEq, Inhabited

def absVal (st : St) : Val → AVal
  | .set s => .set (view st.heap s)
  | .map m => .map (mobj st.maps m)

def runOps (grow : Nat → Nat) (ops : List Op) (st : St := {}) : St × List Out :=
  ops.foldl (fun (p : St × List Out) op => let (st', o) := step grow p.1 op; (st', p.2 ++ [o])) (st, [])

/-- the pinned-tree variant of the machine (only `Insert` differs) -/
def stepPinned (grow : Nat → Nat) (st : St) : Op → St × Out
  | .insert i v =>
    match st.setAt i with
    | some s => let (h, s') := insertPinned grow st.heap s v
                ({ st with heap := h, pool := st.pool ++ [.set s'] }, .none)
    | none => (st, .bad)
  | op => step grow st op

end PV.Data
