/-
  Slice-level state machine for property C07 ("a returned result is never modified afterwards").

  The value-level parser model (Model/Run.lean) cannot express aliasing.  Here Go's memory is explicit:
    * a heap of node objects (`*ast.TerminalNode`, `*ast.NonTerminalNode`: pointer nodes with the mutating
      `SetReaderPos`),
    * a heap of arrays whose cells hold *handles* (Go interface values `parsley.Node`):
      `nil | ptr nodeId | empty pos (ast.EmptyNode, a value) | eof pos (parser.EndNode, a value) | list header`,
    * slice headers `(arr, len, cap)` (the library only ever re-slices from 0: `s.nodes[0:depth]`, and the
      clip `nl[:len(nl):len(nl)]` of combinator/memoize.go changes the capacity only),
    * `append` writes in place when len < cap and reallocates otherwise, the growth policy `grow` is a
      parameter of every function (every theorem is proved for every policy).
  The operations are transcribed statement by statement from ast/helpers.go (AppendNode, SetReaderPos),
  ast/node_list.go (NodeList.Append with flattening and EMPTY de-duplication, NodeList.SetReaderPos),
  ast/*_node.go, combinator/memoize.go (clip before store/return), combinator/seq.go (the `s.nodes` buffer
  written by parseNext, `s.nodes[0:depth]`, seqDefaultResultHandler's copy) and combinator/optional.go.

  Operations refer to earlier results by their index in a pool, so values with a shared history are
  operated on again.  The ownership discipline of the library is explicit in the machine:
    * a list handle that is NOT held by the memo table is *linear*: it lives in one local variable of one
      combinator frame (`res = ast.AppendNode(res, res2)` in Any, `s.result = ast.AppendNode(s.result, …)`
      in seq, the operand of Optional / Memoize / RightTrim); the operation that extends it, stores it or
      trims it CONSUMES its pool entry (marks it dead) and pushes the new value of the variable;
    * a handle held by the memo table is *shared*: it is never consumed; `memoStore` clips it first.
  Operations on dead entries are rejected (`Out.bad`, state unchanged).  `stepPinned` is the machine with the
  pre-fix `Memoize` (no clip): defect D1 is expressible (Props/C07.lean, `c07_pinned_corrupts`).

  Simplifications, each justified by an invariant proved for every reachable state (Props/C07.lean,
  `c07_cells_flat`, `c07_lists_wellformed`): array cells never hold list handles (`NodeList.Append` flattens,
  seq.parse iterates over a list result and passes its elements on), so the recursion of `NodeList.Append` /
  `NodeList.SetReaderPos` into a nested list is not modelled (such a cell would be left as it is and rendered
  as `nested`); a held list never has a nil element, so the panic of `ast.SetReaderPos(nil, …)` inside
  `NodeList.SetReaderPos` is not modelled (a nil cell would be left as it is).
-/
namespace PV.Slice

structure Slice where
  arr : Nat
  len : Nat
  cap : Nat
deriving Repr, DecidableEq, Inhabited

/-- the nil slice -/
def Slice.nil : Slice := ⟨0, 0, 0⟩

/-- a Go interface value of type parsley.Node -/
inductive Handle
  | nil
  | ptr (n : Nat)          -- *ast.TerminalNode / *ast.NonTerminalNode
  | empty (pos : Nat)      -- ast.EmptyNode(pos)
  | eof (pos : Nat)        -- parser.EndNode(pos)
  | list (s : Slice)       -- ast.NodeList
deriving Repr, DecidableEq, Inhabited

inductive NodeObj
  | term (tok : Nat) (val : Int) (pos rpos : Nat)
  | nt (tok : Nat) (children : Slice) (pos rpos : Nat)
deriving Repr, DecidableEq, Inhabited

abbrev Arrs := List (List Handle)

structure Entry where
  h : Handle
  live : Bool
deriving Repr, DecidableEq, Inhabited

structure St where
  nodes : List NodeObj := []
  arrs : Arrs := []
  pool : List Entry := []
  memo : List (Nat × Handle) := []
  bufs : List Slice := []          -- one `s.nodes` per sequence frame
deriving Repr, Inhabited

/-! ### slices -/

def cells (arrs : Arrs) (a : Nat) : List Handle := arrs.getD a []

/-- the elements a holder of slice `s` sees -/
def view (arrs : Arrs) (s : Slice) : List Handle := (cells arrs s.arr).take s.len

def writeCell (arrs : Arrs) (a i : Nat) (v : Handle) : Arrs := arrs.modify a (fun c => c.set i v)

def setCells (arrs : Arrs) (a : Nat) (c : List Handle) : Arrs := arrs.modify a (fun _ => c)

/-- append(s, v) with growth policy `grow` -/
def sliceAppend (grow : Nat → Nat) (arrs : Arrs) (s : Slice) (v : Handle) : Arrs × Slice :=
  if s.len < s.cap then
    (writeCell arrs s.arr s.len v, { s with len := s.len + 1 })
  else
    let cap' := max (grow s.cap) (s.len + 1)
    (arrs ++ [view arrs s ++ [v] ++ List.replicate (cap' - (s.len + 1)) Handle.nil],
     { arr := arrs.length, len := s.len + 1, cap := cap' })

/-- nl[:len(nl):len(nl)] -/
def Slice.clip (s : Slice) : Slice := { s with cap := s.len }

def Handle.clip : Handle → Handle
  | .list s => .list s.clip
  | h => h

/-! ### ast/node_list.go, ast/helpers.go: Append, AppendNode -/

/-- `(nl *NodeList).Append(node)` for a node that is not a NodeList: EMPTY de-duplication, else append -/
def nlAppend1 (grow : Nat → Nat) (arrs : Arrs) (nl : Slice) (v : Handle) : Arrs × Slice :=
  match v with
  | .empty _ => if v ∈ view arrs nl then (arrs, nl) else sliceAppend grow arrs nl v
  | _ => sliceAppend grow arrs nl v

/-- `for _, node := range v { nl.Append(node) }`: the range expression (header of `v`) is evaluated once,
    the elements are read from the array at each iteration -/
def nlAppendLoop (grow : Nat → Nat) (src : Slice) : Nat → Nat → Arrs → Slice → Arrs × Slice
  | 0, _, arrs, nl => (arrs, nl)
  | n + 1, k, arrs, nl =>
    let c := (cells arrs src.arr).getD k Handle.nil
    let r := nlAppend1 grow arrs nl c
    nlAppendLoop grow src n (k + 1) r.1 r.2

/-- `(nl *NodeList).Append(node)` -/
def nlAppend (grow : Nat → Nat) (arrs : Arrs) (nl : Slice) (h : Handle) : Arrs × Slice :=
  match h with
  | .list src => nlAppendLoop grow src src.len 0 arrs nl
  | v => nlAppend1 grow arrs nl v

/-- `ast.AppendNode(n1, n2)` -/
def appendNodeCore (grow : Nat → Nat) (arrs : Arrs) (n1 n2 : Handle) : Arrs × Handle :=
  if n1 = Handle.nil then (arrs, n2)
  else if n2 = Handle.nil then (arrs, n1)
  else
    match n1 with
    | .list n =>
      let r := nlAppend grow arrs n n2
      (r.1, Handle.list r.2)
    | _ =>
      -- nl := NodeList([]parsley.Node{n1})
      let r := nlAppend grow (arrs ++ [[n1]]) ⟨arrs.length, 1, 1⟩ n2
      (r.1, Handle.list r.2)

/-! ### node objects -/

def NodeObj.pos : NodeObj → Nat
  | .term _ _ p _ => p
  | .nt _ _ p _ => p

def NodeObj.rpos : NodeObj → Nat
  | .term _ _ _ r => r
  | .nt _ _ _ r => r

/-- `n.readerPos = f(n.readerPos)` with `f = (· + d)` -/
def NodeObj.bump (d : Nat) : NodeObj → NodeObj
  | .term t v p r => .term t v p (r + d)
  | .nt t c p r => .nt t c p (r + d)

/-- `Pos()` of a cell (lists never occur in cells; nil children are rejected before this is used) -/
def cellPos (nodes : List NodeObj) : Handle → Nat
  | .ptr n => ((nodes[n]?).map NodeObj.pos).getD 0
  | .empty p => p
  | .eof p => p
  | _ => 0

def cellRPos (nodes : List NodeObj) : Handle → Nat
  | .ptr n => ((nodes[n]?).map NodeObj.rpos).getD 0
  | .empty p => p
  | .eof p => p
  | _ => 0

/-! ### rendering: what a holder of a handle reads (token, value, positions, children recursively, list
    membership), as a flat pre-order token list.  Children cells point to nodes created earlier, so the
    renderings of all nodes are built bottom-up in one table. -/

inductive RTok
  | nil
  | empty (p : Nat)
  | eof (p : Nat)
  | term (tok : Nat) (val : Int) (pos rpos : Nat)
  | ntOpen (tok pos rpos : Nat)
  | listOpen
  | close
  | dangling
  | nested
deriving Repr, DecidableEq, Inhabited

/-- `build f k = [x₀, …, x_{k-1}]` with `xₙ = f [x₀, …, x_{n-1}] n` -/
def build {α : Type} (f : List α → Nat → α) : Nat → List α
  | 0 => []
  | k + 1 => build f k ++ [f (build f k) k]

def renderCell (t : List (List RTok)) : Handle → List RTok
  | .nil => [.nil]
  | .ptr m => t.getD m [.dangling]
  | .empty p => [.empty p]
  | .eof p => [.eof p]
  | .list _ => [.nested]

def renderNode (nodes : List NodeObj) (arrs : Arrs) (t : List (List RTok)) (n : Nat) : List RTok :=
  match nodes[n]? with
  | some (.term tok val pos rpos) => [.term tok val pos rpos]
  | some (.nt tok ch pos rpos) => [.ntOpen tok pos rpos] ++ (view arrs ch).flatMap (renderCell t) ++ [.close]
  | none => [.dangling]

def table (s : St) : List (List RTok) := build (renderNode s.nodes s.arrs) s.nodes.length

def renderWith (t : List (List RTok)) (arrs : Arrs) : Handle → List RTok
  | .list sl => [.listOpen] ++ (view arrs sl).flatMap (renderCell t) ++ [.close]
  | h => renderCell t h

/-- what a holder of handle `h` reads in state `s` -/
def render (s : St) (h : Handle) : List RTok := renderWith (table s) s.arrs h

/-! ### the pool -/

/-- the handle of a live pool entry -/
def St.get (s : St) (i : Nat) : Option Handle :=
  match s.pool[i]? with
  | some e => if e.live then some e.h else none
  | none => none

def inMemo (s : St) (h : Handle) : Bool := s.memo.any (fun kv => decide (kv.2 = h))

/-- linear = a list that the memo table does not hold -/
def consumable (s : St) : Handle → Bool
  | .list sl => !(inMemo s (.list sl))
  | _ => false

def St.kill (s : St) (i : Nat) : St := { s with pool := s.pool.modify i (fun e => { e with live := false }) }

def St.consume (s : St) (i : Nat) (h : Handle) : St := if consumable s h then s.kill i else s

def St.push (s : St) (h : Handle) : St := { s with pool := s.pool ++ [⟨h, true⟩] }

/-! ### ast.SetReaderPos with `f = (· + d)` -/

/-- `nl[i] = SetReaderPos(node, f)` for one element: pointer nodes are changed in place and written back,
    an EMPTY value is replaced, EndNode's setter does nothing -/
def setRPCell (d : Nat) (nodes : List NodeObj) (c : Handle) : List NodeObj × Handle :=
  match c with
  | .ptr n => (nodes.modify n (NodeObj.bump d), c)
  | .empty p => (nodes, .empty (p + d))
  | _ => (nodes, c)

/-- `for i, node := range nl { nl[i] = SetReaderPos(node, f) }` -/
def trimLoop (d : Nat) (arr : Nat) : Nat → Nat → List NodeObj → Arrs → List NodeObj × Arrs
  | 0, _, nodes, arrs => (nodes, arrs)
  | n + 1, k, nodes, arrs =>
    let c := (cells arrs arr).getD k Handle.nil
    let r := setRPCell d nodes c
    trimLoop d arr n (k + 1) r.1 (writeCell arrs arr k r.2)

/-- `ast.SetReaderPos(node, f)` on a non-nil node: the new state and the returned node -/
def setRP (d : Nat) (s : St) (h : Handle) : St × Handle :=
  match h with
  | .ptr n => ({ s with nodes := s.nodes.modify n (NodeObj.bump d) }, h)
  | .empty p => (s, .empty (p + d))
  | .list sl =>
    let r := trimLoop d sl.arr sl.len 0 s.nodes s.arrs
    ({ s with nodes := r.1, arrs := r.2 }, h)
  | _ => (s, h)

/-! ### sharing (for the trim discipline): which handles can see what `SetReaderPos` on `h` writes -/

def ptrId : Handle → Option Nat
  | .ptr n => some n
  | _ => none

/-- nodes whose end position `SetReaderPos(h)` moves -/
def trimNodes (s : St) : Handle → List Nat
  | .ptr n => [n]
  | .list sl => (view s.arrs sl).filterMap ptrId
  | _ => []

/-- the array whose cells `SetReaderPos(h)` overwrites -/
def trimArr : Handle → Option Nat
  | .list sl => some sl.arr
  | _ => none

def cellDirty (t : List Bool) : Handle → Bool
  | .ptr m => t.getD m false
  | _ => false

def dirtyNode (nodes : List NodeObj) (arrs : Arrs) (wn : List Nat) (wa : Option Nat) (t : List Bool) (n : Nat) : Bool :=
  wn.contains n ||
    match nodes[n]? with
    | some (.nt _ ch _ _) => decide (wa = some ch.arr ∧ 0 < ch.len) || (view arrs ch).any (cellDirty t)
    | _ => false

def dirtyTable (s : St) (wn : List Nat) (wa : Option Nat) : List Bool :=
  build (dirtyNode s.nodes s.arrs wn wa) s.nodes.length

/-- can a reader of `h'` see a write to the end position of a node in `wn` or to a cell of array `wa`? -/
def affected (s : St) (wn : List Nat) (wa : Option Nat) (h' : Handle) : Bool :=
  match h' with
  | .list sl => decide (wa = some sl.arr ∧ 0 < sl.len) || (view s.arrs sl).any (cellDirty (dirtyTable s wn wa))
  | c => cellDirty (dirtyTable s wn wa) c

/-- pool entry `i` is live and nothing it would write under `SetReaderPos` is visible through any other
    live pool entry or through the memo table -/
def unshared (s : St) (i : Nat) : Bool :=
  match s.get i with
  | none => false
  | some h =>
    let wn := trimNodes s h
    let wa := trimArr h
    (List.range s.pool.length).all (fun k =>
      k == i || match s.get k with
                | some h' => !(affected s wn wa h')
                | none => true) &&
    s.memo.all (fun kv => !(affected s wn wa kv.2))

/-! ### the machine -/

inductive Op
  | newNil                                             -- a parser returned a nil result
  | newTerm (tok : Nat) (val : Int) (pos rpos : Nat)   -- ast.NewTerminalNode
  | newEmpty (pos : Nat)                               -- ast.EmptyNode(pos)
  | newEOF (pos : Nat)                                 -- parser.EndNode(pos)
  | seqNew                                             -- a new `sequence` frame: nodes = nil
  | seqBufWrite (f depth i : Nat)                      -- parseNext: `s.nodes = append(s.nodes, node)` / `s.nodes[depth] = node`
  | seqResult (f depth tok pos : Nat) (single : Bool)  -- resultHandler.HandleResult(pos, token, s.nodes[0:depth], …)
  | appendNode (i j : Nat)                             -- ast.AppendNode(pool[i], pool[j])
  | nlAppend (i j : Nat)                               -- pool[i].(NodeList).Append(pool[j])
  | optionalAppend (i pos : Nat)                       -- ast.AppendNode(pool[i], ast.EmptyNode(pos))
  | listElem (i k : Nat)                               -- pool[i].(NodeList)[k]
  | memoStore (key i : Nat)                            -- Memoize: clip, Save, return
  | memoHit (key : Nat)                                -- Memoize: cache hit
  | setReaderPos (i d : Nat)                           -- ast.SetReaderPos(pool[i], (· + d))  (text.RightTrim)
  | drop (i : Nat)                                     -- a local variable goes out of scope
  | render (i : Nat)
deriving Repr, DecidableEq, Inhabited

inductive Out
  | none                       -- the operation produced a new pool value / changed the frame
  | r (l : List RTok)
  | bad                        -- rejected: dead or ill-typed operand (the state is unchanged)
deriving Repr, DecidableEq, Inhabited

def allocNode (s : St) (o : NodeObj) : St := { s with nodes := s.nodes ++ [o] }

/-- `AppendNode(pool[i], n2)` where `n2` is the (live) content of pool entry `j`, or a fresh value (`j = none`) -/
def doAppend (grow : Nat → Nat) (s : St) (i : Nat) (h1 : Handle) (j : Option Nat) (h2 : Handle) : St :=
  let r := appendNodeCore grow s.arrs h1 h2
  -- the variable holding the extended (or handed on) list is overwritten with the result
  let s1 := if h1 = Handle.nil then (match j with | some j => s.consume j h2 | none => s) else s.consume i h1
  { s1 with arrs := r.1 }.push r.2

/-- Memoize's store path; `clip = false` is the pinned (pre-fix) code -/
def doMemoStore (clip : Bool) (s : St) (key i : Nat) : St × Out :=
  match s.get i with
  | some h =>
    if s.memo.any (fun kv => kv.1 == key) then (s, .bad)
    else
      let h' := if clip then h.clip else h
      let s1 := s.consume i h
      ({ s1 with memo := (key, h') :: s1.memo }.push h', .none)
  | none => (s, .bad)

def step (grow : Nat → Nat) (s : St) : Op → St × Out
  | .newNil => (s.push .nil, .none)
  | .newTerm tok val pos rpos => ((allocNode s (.term tok val pos rpos)).push (.ptr s.nodes.length), .none)
  | .newEmpty pos => (s.push (.empty pos), .none)
  | .newEOF pos => (s.push (.eof pos), .none)
  | .seqNew => ({ s with bufs := s.bufs ++ [Slice.nil] }, .none)
  | .seqBufWrite f depth i =>
    match s.bufs[f]?, s.get i with
    | some b, some h =>
      match h with
      | .nil => (s, .bad)
      | .list _ => (s, .bad)          -- seq.parse iterates over a list result and passes its elements
      | _ =>
        if b.len < depth + 1 then
          let r := sliceAppend grow s.arrs b h
          ({ s with arrs := r.1, bufs := s.bufs.set f r.2 }, .none)
        else
          ({ s with arrs := writeCell s.arrs b.arr depth h }, .none)
    | _, _ => (s, .bad)
  | .seqResult f depth tok pos single =>
    match s.bufs[f]? with
    | some b =>
      if depth ≤ b.len then
        let nodes : Slice := { b with len := depth }      -- s.nodes[0:depth]
        if depth = 0 then
          -- ast.NewEmptyNonTerminalNode(token, pos, interpreter)
          ((allocNode s (.nt tok Slice.nil pos pos)).push (.ptr s.nodes.length), .none)
        else if depth = 1 ∧ single = true then
          (s.push ((cells s.arrs b.arr).getD 0 Handle.nil), .none)
        else
          -- nodesCopy := make([]parsley.Node, l); copy(nodesCopy, nodes)
          let a1 := s.arrs ++ [List.replicate depth Handle.nil]
          let a2 := setCells a1 s.arrs.length (view a1 nodes ++ (cells a1 s.arrs.length).drop depth)
          let ch : Slice := ⟨s.arrs.length, depth, depth⟩
          -- ast.NewNonTerminalNode(token, nodesCopy, interpreter)
          if Handle.nil ∈ view a2 ch then (s, .bad)
          else
            let p := cellPos s.nodes ((view a2 ch).getD 0 Handle.nil)
            let rp := cellRPos s.nodes ((view a2 ch).getD (depth - 1) Handle.nil)
            ((allocNode { s with arrs := a2 } (.nt tok ch p rp)).push (.ptr s.nodes.length), .none)
      else (s, .bad)
    | none => (s, .bad)
  | .appendNode i j =>
    match s.get i, s.get j with
    | some h1, some h2 => (doAppend grow s i h1 (some j) h2, .none)
    | _, _ => (s, .bad)
  | .nlAppend i j =>
    match s.get i, s.get j with
    | some (.list sl), some h2 =>
      if h2 = Handle.nil then (s, .bad)
      else
        let r := nlAppend grow s.arrs sl h2
        ({ (s.consume i (.list sl)) with arrs := r.1 }.push (.list r.2), .none)
    | _, _ => (s, .bad)
  | .optionalAppend i pos =>
    match s.get i with
    | some h1 => (doAppend grow s i h1 none (.empty pos), .none)
    | none => (s, .bad)
  | .listElem i k =>
    match s.get i with
    | some (.list sl) => if k < sl.len then (s.push ((cells s.arrs sl.arr).getD k Handle.nil), .none) else (s, .bad)
    | _ => (s, .bad)
  | .memoStore key i => doMemoStore true s key i
  | .memoHit key =>
    match s.memo.find? (fun kv => kv.1 == key) with
    | some kv => (s.push kv.2, .none)
    | none => (s, .bad)
  | .setReaderPos i d =>
    match s.get i with
    | some h =>
      if h = Handle.nil then (s, .bad)          -- ast.SetReaderPos panics
      else
        let r := setRP d s h
        -- `res = ast.SetReaderPos(res, …)`: the variable is overwritten
        ((r.1.kill i).push r.2, .none)
    | none => (s, .bad)
  | .drop i =>
    match s.get i with
    | some _ => (s.kill i, .none)
    | none => (s, .bad)
  | .render i =>
    match s.get i with
    | some h => (s, .r (render s h))
    | none => (s, .bad)

/-- the pinned-tree variant of the machine: `Memoize` stores and returns the list as it got it -/
def stepPinned (grow : Nat → Nat) (s : St) : Op → St × Out
  | .memoStore key i => doMemoStore false s key i
  | op => step grow s op

def run (grow : Nat → Nat) (ops : List Op) (s : St) : St := ops.foldl (fun s op => (step grow s op).1) s

def runPinned (grow : Nat → Nat) (ops : List Op) (s : St) : St := ops.foldl (fun s op => (stepPinned grow s op).1) s

def Op.isTrim : Op → Bool
  | .setReaderPos _ _ => true
  | _ => false

/-- every handle ever put into the pool, with what it read when it was returned -/
abbrev Trace := List (Handle × List RTok)

def traceStep (grow : Nat → Nat) (p : St × Trace) (op : Op) : St × Trace :=
  let s' := (step grow p.1 op).1
  if p.1.pool.length < s'.pool.length then
    let h := ((s'.pool.getLast?).map Entry.h).getD Handle.nil
    (s', p.2 ++ [(h, render s' h)])
  else (s', p.2)

def runTrace (grow : Nat → Nat) (ops : List Op) (p : St × Trace) : St × Trace := ops.foldl (traceStep grow) p

end PV.Slice
