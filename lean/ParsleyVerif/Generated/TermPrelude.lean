/-
  HAND-WRITTEN (not generated): the additional run-time the TERMINAL translator targets.
  `factgen -out-term` turns the parse closures of text/terminal/*.go (Rune, Op, Word, Bool, Nil, Integer, Float, Char,
  String, TimeDuration, Regexp) statement by statement into Lean definitions (Generated/FactsTerm.lean, regenerated on
  every run), with the monad, the node and error types and the value-level data package of Generated/CorePrelude.lean;
  this file gives the meaning of the Go constructs that only the terminals use.  Everything here is TRUSTED BASE.

  * A `[]byte` is `Option Bytes` (nil, or its bytes): the closures only test it against nil and convert it to a string;
    a `[][]byte` is `Option (List (Option Bytes))` (`len`, index with a run-time panic out of range).  Aliasing with the
    file's buffer is not modelled (nothing is written).
  * `string(b)` for b []byte: the bytes (nil: the empty string).  `string(r)` for a rune r: its UTF-8 encoding, U+FFFD for
    a value that is not a Unicode scalar value (unicode/utf8.AppendRune).
  * float64 and time.Duration values are SYMBOLIC (`Float64`, `Duration`: opaque payloads that the world's ParseFloat /
    ParseDuration produce and the node constructors store); no arithmetic on them occurs in the translated code.
  * A value stored in an `interface{}` carries its dynamic type as a tag (`Val.of…`).
  * The typed node constructors — terminal.NewOpNode / NewBoolNode / NewNilNode / NewIntegerNode / NewFloatNode /
    NewCharNode / NewStringNode / NewTimeDurationNode and ast.NewTerminalNode — build a leaf of the dynamic node type
    (`Node.leaf token value pos readerPos`: CorePrelude's "every other node type") with what the type's Token() and
    Value() methods return; the schema is NOT represented (no translated function reads it).
  * `parsley.NewErrorf(pos, format, s)` with one string value: `%s` is replaced by the value.
  * `ctx.Reader()`: there is one reader and it is immutable (`Go.theReader`); the terminal closures use the context for
    nothing else, so the generated functions are polymorphic in the state of the monad.
  * The world `TWorld`: the methods of *text.Reader the terminals call (an `Option` result: `none` is a Go panic inside
    the method — `Go.call`), `unquoteString` (the function value string.go passes to Readf; translated and tied in
    FactsProg / Props/C08P.lean) and the library functions strconv.ParseInt / ParseFloat / UnquoteChar,
    time.ParseDuration and — at construction time — strconv.Quote, strings.ToUpper.  What is assumed of them is stated
    where it is used (Proofs/TermTieBasics.lean `TWorldRel`).
  * The statements of a constructor before its `return` are translated as X_new (they run once, when the grammar is
    built): it answers the variables the closure X_parse captures.
  Core Lean only.
-/
import ParsleyVerif.Generated.CorePrelude
namespace PV.TermPrelude
open PV.CorePrelude

/-- a float64 value, symbolic -/
abbrev Float64 := Opaque
/-- a time.Duration value, symbolic -/
abbrev Duration := Opaque

/-- a call of an untranslated method that may panic (`none`) -/
def Go.call {σ α : Type} : Option α → M σ α
  | some a => Pure.pure a
  | none => Go.panic

/-- `ctx.Reader()`, also after the assertion to *text.Reader -/
def Go.theReader : ReaderH := ()

/-- `string(b)` for b of type []byte -/
def Go.stringOfBytes : Option Bytes → Bytes
  | none => []
  | some b => b

/-- `string(r)` for a rune: unicode/utf8.AppendRune -/
def Go.stringOfRune (r : Int) : Bytes :=
  if r < 0 then [0xEF, 0xBF, 0xBD]
  else
    let c := r.toNat
    if c < 0x80 then [c]
    else if c < 0x800 then [0xC0 + c / 64, 0x80 + c % 64]
    else if c > 0x10FFFF || (0xD800 ≤ c && c ≤ 0xDFFF) then [0xEF, 0xBF, 0xBD]
    else if c < 0x10000 then [0xE0 + c / 4096, 0x80 + (c / 64) % 64, 0x80 + c % 64]
    else [0xF0 + c / 262144, 0x80 + (c / 4096) % 64, 0x80 + (c / 64) % 64, 0x80 + c % 64]

/-- `len(s)` for a slice that may be nil -/
def Go.olen {α : Type} : Option (List α) → Int
  | none => 0
  | some l => l.length

/-- `s[i]` for a slice that may be nil -/
def Go.onth {σ α : Type} : Option (List α) → Int → M σ α
  | none, _ => Go.panic
  | some l, i => Go.nth l i

/-! ### values stored in an `interface{}`: the tag is the dynamic type -/

def Val.ofRune (r : Int) : Opaque := [0, r]
def Val.ofString (s : Bytes) : Opaque := 1 :: s.map Int.ofNat
def Val.ofInt64 (i : Int) : Opaque := [2, i]
def Val.ofFloat64 (f : Float64) : Opaque := 3 :: f
def Val.ofDuration (d : Duration) : Opaque := 4 :: d
def Val.ofBool (b : Bool) : Opaque := [5, if b then 1 else 0]
/-- the nil interface value -/
def Val.nil : Opaque := [6]

/-! ### node constructors: Token() and Value() of the typed leaf nodes -/

/-- ast.NewTerminalNode(schema, token, value, pos, readerPos) -/
def NewTerminalNode (_schema : Opaque) (token : Bytes) (value : Opaque) (pos readerPos : Int) : Node :=
  .leaf token value pos readerPos

/-- terminal.NewOpNode(value, pos, readerPos): Token() and Value() are the operator -/
def NewOpNode (value : Bytes) (pos readerPos : Int) : Node := .leaf value (Val.ofString value) pos readerPos

/-- terminal.NewBoolNode -/
def NewBoolNode (_schema : Opaque) (value : Bool) (pos readerPos : Int) : Node :=
  .leaf (Go.str "BOOL") (Val.ofBool value) pos readerPos

/-- terminal.NewNilNode: Value() is nil -/
def NewNilNode (_schema : Opaque) (pos readerPos : Int) : Node := .leaf (Go.str "NIL") Val.nil pos readerPos

/-- terminal.NewIntegerNode -/
def NewIntegerNode (_schema : Opaque) (value : Int) (pos readerPos : Int) : Node :=
  .leaf (Go.str "INTEGER") (Val.ofInt64 value) pos readerPos

/-- terminal.NewFloatNode -/
def NewFloatNode (_schema : Opaque) (value : Float64) (pos readerPos : Int) : Node :=
  .leaf (Go.str "FLOAT") (Val.ofFloat64 value) pos readerPos

/-- terminal.NewCharNode -/
def NewCharNode (_schema : Opaque) (value : Int) (pos readerPos : Int) : Node :=
  .leaf (Go.str "CHAR") (Val.ofRune value) pos readerPos

/-- terminal.NewStringNode -/
def NewStringNode (_schema : Opaque) (value : Bytes) (pos readerPos : Int) : Node :=
  .leaf (Go.str "STRING") (Val.ofString value) pos readerPos

/-- terminal.NewTimeDurationNode -/
def NewTimeDurationNode (_schema : Opaque) (value : Duration) (pos readerPos : Int) : Node :=
  .leaf (Go.str "TIME_DURATION") (Val.ofDuration value) pos readerPos

/-! ### errors -/

/-- the first `%s` of a format replaced by a string -/
def Go.subst1 : Bytes → Bytes → Bytes
  | 37 :: 115 :: r, a => a ++ r
  | b :: r, a => b :: Go.subst1 r a
  | [], _ => []

/-- parsley.NewErrorf(pos, format, s) with one string value -/
def NewErrorf1 (pos : Int) (fmt : Bytes) (s : Bytes) : Err := .mk pos (.other 0 (Go.subst1 fmt s))

/-! ### the world of the terminals -/

structure TWorld where
  /-- `tr.ReadRune(pos, ch)` -/
  Reader_ReadRune : Int → Int → Option (Int × Bool)
  /-- `tr.MatchString(pos, str)` -/
  Reader_MatchString : Int → Bytes → Option (Int × Bool)
  /-- `tr.MatchWord(pos, word)` -/
  Reader_MatchWord : Int → Bytes → Option (Int × Bool)
  /-- `tr.ReadRegexp(pos, expr)` -/
  Reader_ReadRegexp : Int → Bytes → Option (Int × Option Bytes)
  /-- `tr.ReadRegexpSubmatch(pos, expr)` -/
  Reader_ReadRegexpSubmatch : Int → Bytes → Option (Int × Option (List (Option Bytes)))
  /-- `tr.Readf(pos, f)` -/
  Reader_Readf : Int → (Bytes → Option Bytes × Int) → Option (Int × Option Bytes)
  /-- `tr.IsEOF(pos)` -/
  Reader_IsEOF : Int → Bool
  /-- `tr.Remaining(pos)` -/
  Reader_Remaining : Int → Int
  /-- text/terminal/string.go `unquoteString`, as a function value -/
  unquoteString : Bytes → Option Bytes × Int
  /-- strconv.ParseInt(s, base, bitSize) -/
  strconv_ParseInt : Bytes → Int → Int → Int × Cause
  /-- strconv.ParseFloat(s, bitSize) -/
  strconv_ParseFloat : Bytes → Int → Float64 × Cause
  /-- strconv.UnquoteChar(s, quote): (value, multibyte, tail, err) -/
  strconv_UnquoteChar : Bytes → Int → Int × Bool × Bytes × Cause
  /-- time.ParseDuration(s) -/
  time_ParseDuration : Bytes → Duration × Cause
  /-- strconv.Quote(s) (construction time: the name in "was expecting …") -/
  strconv_Quote : Bytes → Bytes
  /-- strings.ToUpper(s) (construction time: Word's token) -/
  strings_ToUpper : Bytes → Bytes

end PV.TermPrelude
