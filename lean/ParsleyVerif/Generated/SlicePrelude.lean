/-
  HAND-WRITTEN (not generated): the run-time the NODE-HEAP translator targets.
  `factgen -out-ast` (harness/cmd/factgen/progast.go) turns the list / node primitives of package ast that MUTATE IN PLACE —
  ast.SetReaderPos, NodeList.SetReaderPos, (*TerminalNode).SetReaderPos, (*NonTerminalNode).SetReaderPos,
  parser.EndNode.SetReaderPos, ast.AppendNode, (*NodeList).Append — statement by statement into Lean definitions
  (second half of Generated/FactsAst.lean, namespace PV.FactsAstProg, regenerated on every run); this file gives the meaning
  of the Go constructs those definitions are built from.  Everything here is TRUSTED BASE.

  * Go `int`, parsley.Pos, ast.EmptyNode, parser.EndNode (named integer types) are `Int` (overflow is not modelled).
  * A `*ast.TerminalNode` / `*ast.NonTerminalNode` is an ADDRESS into the store's heap of node structs (`cells`); the only
    field the translated functions read or write is `readerPos` (`Go.readerPos`, `Go.setReaderPos`; an address without a
    cell — a nil or dangling pointer — panics).  The other fields of the struct are carried along untouched.
  * An `ast.NodeList` is a SLICE HEADER (array, length, capacity) into a heap of arrays whose cells hold interface values
    (`Node`); two headers over one array alias, exactly as in Go.  The translated functions contain no slice expression, so
    every header starts at the beginning of its array (no offset).  `append` writes in place when len < cap and allocates
    otherwise; the growth policy is the field `grow` of the state, never changed, so every theorem holds for every policy.
  * `(*NodeList).Append` has a POINTER receiver that it writes through (`*nl = append(*nl, v)`): the translated function takes
    the value of `*nl` and returns the new one, and a call `x.Append(a)` on a local list variable (Go takes `&x`) rebinds `x`.
    The translator checks that the pointer is used for nothing but `*nl` and method calls, so no other alias of the VARIABLE
    exists (aliases of the ARRAY are what the heap of arrays is for).  `x == v` between an interface value and a value of a
    comparable node type is equality of `Node`s.
  * A `parsley.Node` value (`Node`) has one of the dynamic types the library defines: nil, *ast.TerminalNode,
    *ast.NonTerminalNode, ast.EmptyNode, parser.EndNode, ast.NodeList; node types defined by users (and the typed terminal
    nodes of text/terminal, which behave like *ast.TerminalNode here) are NOT modelled.  A type test `x.(I)` for an
    interface `I` is `Node.hasKind ks`, where the list `ks` of dynamic types that implement `I` is COMPUTED by the translator
    from the method sets (go/types) on every run; a method call on an interface value is an in-line `match` on the dynamic
    type that calls the translated method of that type (`Go.noMethod`: excluded by Go's type system).
  * The call-back `f func(parsley.Pos) parsley.Pos` is a function `Int → Int`: it is ASSUMED not to touch the node structs
    and the arrays (text.RightTrim's call-back reads the input and assigns a captured error variable).
  * A loop whose body returns or changes a variable of the function is a loop function in continuation style (its exit branch
    is what follows the loop); a call of an unexported helper of the package is translated in line, in continuation style.
  * Recursion (ast.SetReaderPos ↔ NodeList.SetReaderPos, Append ↔ Append) and loops share ONE fuel: every call and every
    round of a loop passes on the predecessor; running out is the distinct outcome `Res.nofuel`, never a value.  A Go
    run-time panic (index out of range, nil dereference, an explicit `panic`) is `Res.panic`, never a default value.
  Core Lean only.
-/
namespace PV.SlicePrelude

/-- slice header: the elements are `array[0 .. len)` -/
structure Sl where
  arr : Nat
  len : Nat
  cap : Nat
deriving Repr, DecidableEq, Inhabited

/-- a Go interface value of type parsley.Node -/
inductive Node where
  | nil
  | term (p : Nat)        -- *ast.TerminalNode
  | nonterm (p : Nat)     -- *ast.NonTerminalNode
  | empty (pos : Int)     -- ast.EmptyNode
  | eof (pos : Int)       -- parser.EndNode
  | list (s : Sl)         -- ast.NodeList
deriving Repr, DecidableEq, Inhabited

inductive Kind where
  | term | nonterm | empty | eof | list
deriving Repr, DecidableEq

def Node.kind : Node → Option Kind
  | .nil => none
  | .term _ => some .term
  | .nonterm _ => some .nonterm
  | .empty _ => some .empty
  | .eof _ => some .eof
  | .list _ => some .list

def Node.isNil : Node → Bool
  | .nil => true
  | _ => false

/-- does the dynamic type of `n` belong to `ks` (`x.(I)` succeeds; nil: no) -/
def Node.hasKind (ks : List Kind) (n : Node) : Bool :=
  match n.kind with
  | some k => ks.contains k
  | none => false

/-- `x.(ast.EmptyNode)` -/
def Node.asEmpty : Node → Option Int
  | .empty p => some p
  | _ => none

/-- `x.(parser.EndNode)` -/
def Node.asEof : Node → Option Int
  | .eof p => some p
  | _ => none

/-- `x.(ast.NodeList)` -/
def Node.asList : Node → Option Sl
  | .list s => some s
  | _ => none

/-- `x.(*ast.TerminalNode)` -/
def Node.asTerm : Node → Option Nat
  | .term p => some p
  | _ => none

/-- `x.(*ast.NonTerminalNode)` -/
def Node.asNonterm : Node → Option Nat
  | .nonterm p => some p
  | _ => none

/-- the struct a node pointer points to: `readerPos` and the fields the translated functions never touch -/
structure Cell where
  readerPos : Int
  pos : Int
  token : Nat
  value : Int
  children : Sl
deriving Repr, DecidableEq, Inhabited

structure St where
  cells : List Cell
  arrays : List (List Node)
  grow : Nat → Nat

inductive Res (α : Type) where
  | ok (a : α) (s : St)
  | panic
  | nofuel

def M (α : Type) : Type := St → Res α

def M.pure {α : Type} (a : α) : M α := fun s => .ok a s

def M.bind {α β : Type} (x : M α) (f : α → M β) : M β := fun s =>
  match x s with
  | .ok a s' => f a s'
  | .panic => .panic
  | .nofuel => .nofuel

instance : Monad M where
  pure := M.pure
  bind := M.bind

/-- a Go run-time panic -/
def Go.panic {α : Type} : M α := fun _ => .panic

/-- the fuel did not suffice -/
def Go.outOfFuel {α : Type} : M α := fun _ => .nofuel

/-- a method call on a dynamic type that does not have the method: excluded by Go's type system -/
def Go.noMethod {α : Type} : M α := Go.panic

/-! ### node structs -/

/-- `p.readerPos` -/
def Go.readerPos (p : Nat) : M Int := fun st =>
  match st.cells[p]? with
  | some c => .ok c.readerPos st
  | none => .panic

/-- `p.readerPos = v` -/
def Go.setReaderPos (p : Nat) (v : Int) : M Unit := fun st =>
  match st.cells[p]? with
  | some c => .ok () { st with cells := st.cells.set p { c with readerPos := v } }
  | none => .panic

/-! ### slices of nodes -/

def cellsOf (st : St) (a : Nat) : List Node := st.arrays.getD a []

/-- the elements a holder of the header sees -/
def view (st : St) (s : Sl) : List Node := (cellsOf st s.arr).take s.len

/-- `len(s)` -/
def Go.len (s : Sl) : Int := s.len

/-- `s[i]` as a value -/
def Go.idx (s : Sl) (i : Int) : M Node := fun st =>
  if 0 ≤ i ∧ i < s.len then
    match (cellsOf st s.arr)[i.toNat]? with
    | some v => .ok v st
    | none => .panic
  else .panic

/-- `s[i] = v` -/
def Go.setIdx (s : Sl) (i : Int) (v : Node) : M Unit := fun st =>
  if 0 ≤ i ∧ i < s.len ∧ i.toNat < (cellsOf st s.arr).length then
    .ok () { st with arrays := st.arrays.modify s.arr (fun c => c.set i.toNat v) }
  else .panic

/-- `[]parsley.Node{v₁, …, vₙ}` -/
def Go.litSlice (vs : List Node) : M Sl := fun st =>
  .ok { arr := st.arrays.length, len := vs.length, cap := vs.length }
      { st with arrays := st.arrays ++ [vs] }

/-- `append(s, v)` -/
def Go.append (s : Sl) (v : Node) : M Sl := fun st =>
  if s.len < s.cap then
    .ok { s with len := s.len + 1 }
        { st with arrays := st.arrays.modify s.arr (fun c => c.set s.len v) }
  else
    let cap' := max (st.grow s.cap) (s.len + 1)
    .ok { arr := st.arrays.length, len := s.len + 1, cap := cap' }
        { st with arrays := st.arrays ++ [view st s ++ [v] ++ List.replicate (cap' - (s.len + 1)) Node.nil] }

end PV.SlicePrelude
