/-
  HAND-WRITTEN (not generated): the run-time the CORE translator targets.
  `factgen -out-core` turns the parser core of the Go library — the parse closures of combinator/*.go, parser/*.go,
  text/trim.go, and parsley/context.go, result_cache.go, parse.go, ast.AppendNode / NodeList.Append — statement by
  statement into Lean definitions (Generated/FactsCore.lean, regenerated on every run); this file gives the meaning of
  the Go constructs those definitions are built from.  Everything here is TRUSTED BASE.

  * The monad `M σ`: a state (σ = the translated `parsley.Context` struct: there is ONE context per parse, every
    variable of type *parsley.Context denotes it), and three outcomes: a value, a Go panic, fuel exhausted.
  * Go `int`, `parsley.Pos`, named integer types: `Int` (overflow not modelled).  A Go string: its bytes (`Bytes`).
  * VALUE level: slices of nodes / parsers / ints are lists (`append` = snoc, index out of range = panic); aliasing of
    slices is NOT modelled here (it is C07's separate slice-level model; the data package's slice/map level is
    C15P's).  A map is a finite function (`Map`), nil or not; a write into the nil map panics.  Maps are owned values:
    the translator writes a modified map back to the place it was read from.
  * A `parsley.Parser` value is an abstract handle; `p.Parse(ctx, leftRecCtx, pos)` is the field `parse` of the
    `World` the generated functions take as a parameter, and so are the methods of the (immutable) reader.
  * Nodes: the dynamic types the core distinguishes (nil, ast.EmptyNode, parser.EndNode, ast.NodeList,
    *ast.NonTerminalNode, anything else); the METHODS of these node types (Token, Pos, ReaderPos, Children,
    SetReaderPos, the constructors NewNonTerminalNode / NewEmptyNonTerminalNode) are given here, not translated.
  * Errors: a `parsley.Error` is nil or (position, cause); a cause (Go `error`) is nil, a parsley.NotFoundError, a
    whitespace error or something else; `NewError`'s short cut for a cause that is itself a parsley.Error is not
    modelled (no caller in the core passes one); `errors.As` looks at the cause only.
  * The data package is used at VALUE level: a `data.IntSet` is the strictly ascending list of its members, a
    `data.IntMap` the association list in ascending key order; `Data.*` below are the specification functions that
    Props/C15P.lean proves of the TRANSLATED slice/map-level functions (Proofs/CoreTieData.lean proves them equal to
    Spec/SetSpec.lean's).
  Core Lean only.
-/
namespace PV.CorePrelude

abbrev Bytes := List Nat

/-- a Go string constant: its UTF-8 bytes -/
def Go.str (s : String) : Bytes := s.toUTF8.toList.map UInt8.toNat

/-- an opaque payload (an interpreter, a terminal node's value): nothing is assumed about it -/
abbrev Opaque := List Int

inductive Res (σ α : Type) where
  | ok (a : α) (s : σ)
  | panic
  | nofuel

def M (σ α : Type) : Type := σ → Res σ α

def M.pure {σ α : Type} (a : α) : M σ α := fun s => .ok a s

def M.bind {σ α β : Type} (x : M σ α) (f : α → M σ β) : M σ β := fun s =>
  match x s with
  | .ok a s' => f a s'
  | .panic => .panic
  | .nofuel => .nofuel

instance {σ : Type} : Monad (M σ) where
  pure := M.pure
  bind := M.bind

/-- a Go run-time panic -/
def Go.panic {σ α : Type} : M σ α := fun _ => .panic

/-- the fuel of a recursion did not suffice -/
def Go.outOfFuel {σ α : Type} : M σ α := fun _ => .nofuel

/-- a nil function value: calling it panics -/
instance {σ α : Type} : Inhabited (M σ α) := ⟨Go.panic⟩

/-- read a field of the context -/
def Go.read {σ α : Type} (f : σ → α) : M σ α := fun s => .ok (f s) s

/-- write the context -/
def Go.modify {σ : Type} (f : σ → σ) : M σ Unit := fun s => .ok () (f s)

/-- `*p` / `p.field` for a pointer to a struct -/
def Go.deref {σ α : Type} : Option α → M σ α
  | some a => Pure.pure a
  | none => Go.panic

/-- the result of a loop that may `return` from the enclosing function -/
inductive Brk (ρ τ : Type) where
  | ret (r : ρ)
  | done (s : τ)

/-! ### lists (slices at value level) -/

def Go.len {α : Type} (l : List α) : Int := l.length

/-- `l[i]` -/
def Go.nth {σ α : Type} (l : List α) (i : Int) : M σ α :=
  if 0 ≤ i then
    match l[i.toNat]? with
    | some v => Pure.pure v
    | none => Go.panic
  else Go.panic

/-- `l[i] = v` -/
def Go.setNth {σ α : Type} (l : List α) (i : Int) (v : α) : M σ (List α) :=
  if 0 ≤ i ∧ i.toNat < l.length then Pure.pure (l.set i.toNat v) else Go.panic

/-- `append(l, v)` -/
def Go.append {α : Type} (l : List α) (v : α) : List α := l ++ [v]

/-- `l[lo:hi]` (bounds against the length: the capacity is not modelled at value level) -/
def Go.slice {σ α : Type} (l : List α) (lo hi : Int) : M σ (List α) :=
  if 0 ≤ lo ∧ lo ≤ hi ∧ hi.toNat ≤ l.length then Pure.pure ((l.drop lo.toNat).take (hi.toNat - lo.toNat)) else Go.panic

/-- `l[lo:hi:max]` -/
def Go.slice3 {σ α : Type} (l : List α) (lo hi mx : Int) : M σ (List α) :=
  if hi ≤ mx ∧ mx.toNat ≤ l.length then Go.slice l lo hi else Go.panic

/-- `make([]T, n)` -/
def Go.mkList {σ α : Type} [Inhabited α] (n : Int) : M σ (List α) :=
  if 0 ≤ n then Pure.pure (List.replicate n.toNat default) else Go.panic

/-- `copy(dst, src)`: the new value of dst -/
def Go.copy {α : Type} (dst src : List α) : List α :=
  src.take (min dst.length src.length) ++ dst.drop (min dst.length src.length)

/-! ### maps -/

inductive Map (α : Type) where
  | nil
  | mk (f : Int → Option α)

instance {α : Type} : Inhabited (Map α) := ⟨.nil⟩

def Map.isNil {α : Type} : Map α → Bool
  | .nil => true
  | .mk _ => false

def Map.find {α : Type} : Map α → Int → Option α
  | .nil, _ => none
  | .mk f, k => f k

/-- `make(map[K]V)` -/
def Go.mkMap {α : Type} : Map α := .mk (fun _ => none)

/-- `m[k]` (the zero value when absent, also for the nil map) -/
def Go.mapGet {α : Type} [Inhabited α] (m : Map α) (k : Int) : α := (m.find k).getD default

/-- `v, ok := m[k]` -/
def Go.mapGet2 {α : Type} [Inhabited α] (m : Map α) (k : Int) : α × Bool :=
  match m.find k with
  | some v => (v, true)
  | none => (default, false)

/-- `m[k] = v`: the new value of m -/
def Go.mapSet {σ α : Type} (m : Map α) (k : Int) (v : α) : M σ (Map α) :=
  match m with
  | .nil => Go.panic
  | .mk f => Pure.pure (.mk (fun k' => if k' = k then some v else f k'))

/-! ### errors -/

inductive Cause where
  | nil
  | notFound (name : Bytes)          -- parsley.NotFoundError
  | whitespace (msg : Bytes)         -- parsley.whitespaceError
  | other (tag : Nat) (msg : Bytes)  -- anything else (errors.New, fmt.Errorf)
  | positioned (pos : Int) (c : Cause)   -- FileSet.ErrorWithPosition(err), kept symbolic (the rendering is not translated)
  | wrapped (fmt : Bytes) (c : Cause)    -- fmt.Errorf(fmt, c) with a constant format, kept symbolic
deriving DecidableEq, Inhabited

def Cause.isNil : Cause → Bool
  | .nil => true
  | _ => false

inductive Err where
  | nil
  | mk (pos : Int) (cause : Cause)
deriving DecidableEq, Inhabited

instance : Inhabited Err := ⟨.nil⟩

def Err.isNil : Err → Bool
  | .nil => true
  | _ => false

/-- `err.Pos()` -/
def Err_Pos {σ : Type} : Err → M σ Int
  | .nil => Go.panic
  | .mk p _ => Pure.pure p

/-- `err.Cause()` -/
def Err_Cause {σ : Type} : Err → M σ Cause
  | .nil => Go.panic
  | .mk _ c => Pure.pure c

/-- parsley.NewError(pos, cause) -/
def NewError (pos : Int) (cause : Cause) : Err := .mk pos cause

/-- parsley.NewErrorf(pos, msg) with a constant message -/
def NewErrorf (pos : Int) (msg : Bytes) : Err := .mk pos (.other 0 msg)

/-- errors.New(msg) -/
def errors_New (msg : Bytes) : Cause := .other 0 msg

/-- the conversion parsley.NotFoundError(name) -/
def NotFoundError (name : Bytes) : Cause := .notFound name

/-- parsley.IsNotFoundError -/
def IsNotFoundError : Err → Bool
  | .mk _ (.notFound _) => true
  | _ => false

/-- parsley.IsWhitespaceError -/
def IsWhitespaceError : Err → Bool
  | .mk _ (.whitespace _) => true
  | _ => false

/-- `ctx.FileSet().ErrorWithPosition(err)`: the rendering of the position is not translated, the value records which
    error was rendered (a nil error: the method calls err.Pos(), a panic) -/
def ErrorWithPosition {σ : Type} : Err → M σ Cause
  | .nil => Go.panic
  | .mk p c => Pure.pure (.positioned p c)

/-- `fmt.Errorf(format, cause)` with a constant format -/
def Go.errorf (fmt : Bytes) (c : Cause) : Cause := .wrapped fmt c

/-! ### nodes -/

inductive Node where
  | nil
  | empty (pos : Int)                                                               -- ast.EmptyNode
  | eof (pos : Int)                                                                 -- parser.EndNode
  | list (l : List Node)                                                            -- ast.NodeList
  | nonterm (token : Bytes) (children : List Node) (pos readerPos : Int) (interp : Opaque)  -- *ast.NonTerminalNode
  | leaf (token : Bytes) (val : Opaque) (pos readerPos : Int)                       -- every other node type
deriving Inhabited

instance : Inhabited Node := ⟨.nil⟩

def Node.isNil : Node → Bool
  | .nil => true
  | _ => false

/-- `x, ok := n.(ast.NodeList)` -/
def Node.asNodeList : Node → List Node × Bool
  | .list l => (l, true)
  | _ => ([], false)

/-- `x, ok := n.(ast.EmptyNode)` -/
def Node.asEmptyNode : Node → Int × Bool
  | .empty p => (p, true)
  | _ => (0, false)

/-- `x, ok := n.(parsley.NonTerminalNode)` (implemented by *ast.NonTerminalNode only) -/
def Node.asNonTerminalNode : Node → Node × Bool
  | .nonterm t c p r i => (.nonterm t c p r i, true)
  | _ => (.nil, false)

/-- `n == v` for an interface value n and v of type ast.EmptyNode -/
def Node.eqEmptyNode : Node → Int → Bool
  | .empty p, v => decide (p = v)
  | _, _ => false

def eofToken : Bytes := Go.str "EOF"
def emptyToken : Bytes := Go.str "EMPTY"

/-- `n.ReaderPos()` (a NodeList answers for its first node) -/
def Node_ReaderPos {σ : Type} : Node → M σ Int
  | .nil => Go.panic
  | .empty p => Pure.pure p
  | .eof p => Pure.pure p
  | .list [] => Go.panic
  | .list (n :: _) => Node_ReaderPos n
  | .nonterm _ _ _ r _ => Pure.pure r
  | .leaf _ _ _ r => Pure.pure r

/-- `n.Pos()` -/
def Node_Pos {σ : Type} : Node → M σ Int
  | .nil => Go.panic
  | .empty p => Pure.pure p
  | .eof p => Pure.pure p
  | .list [] => Go.panic
  | .list (n :: _) => Node_Pos n
  | .nonterm _ _ p _ _ => Pure.pure p
  | .leaf _ _ p _ => Pure.pure p

/-- `n.Token()` -/
def Node_Token {σ : Type} : Node → M σ Bytes
  | .nil => Go.panic
  | .empty _ => Pure.pure emptyToken
  | .eof _ => Pure.pure eofToken
  | .list [] => Go.panic
  | .list (n :: _) => Node_Token n
  | .nonterm t _ _ _ _ => Pure.pure t
  | .leaf t _ _ _ => Pure.pure t

/-- `n.Children()` on a parsley.NonTerminalNode -/
def Node_Children {σ : Type} : Node → M σ (List Node)
  | .nonterm _ c _ _ _ => Pure.pure c
  | _ => Go.panic

/-- ast.NewNonTerminalNode(token, children, interpreter) -/
def NewNonTerminalNode {σ : Type} (token : Bytes) (children : List Node) (interp : Opaque) : M σ Node :=
  match children, children.getLast? with
  | first :: _, some last =>
    if children.any Node.isNil then Go.panic
    else do
      let p ← Node_Pos first
      let r ← Node_ReaderPos last
      Pure.pure (.nonterm token children p r interp)
  | _, _ => Go.panic

/-- ast.NewEmptyNonTerminalNode(token, pos, interpreter) -/
def NewEmptyNonTerminalNode (token : Bytes) (pos : Int) (interp : Opaque) : Node := .nonterm token [] pos pos interp

/-- ast.SetReaderPos(node, f) for a function literal `f` that assigns captured variables (their tuple is `τ`):
    a ReaderPosSetter node gets `readerPos = f(readerPos)` (a NodeList: every element in turn), an EmptyNode is replaced by
    EmptyNode(f(pos)), parser.EndNode's SetReaderPos does nothing (f is not called), any other type panics -/
def SetReaderPos1 {σ τ : Type} (f : τ → Int → M σ (τ × Int)) : Node → τ → M σ (τ × Node)
  | .nil, _ => Go.panic
  | .empty p, t => do let (t, p') ← f t p; Pure.pure (t, .empty p')
  | .eof p, t => Pure.pure (t, .eof p)
  | .list _, _ => Go.panic          -- handled by SetReaderPos below
  | .nonterm tk c p r i, t => do let (t, r') ← f t r; Pure.pure (t, .nonterm tk c p r' i)
  | .leaf tk v p r, t => do let (t, r') ← f t r; Pure.pure (t, .leaf tk v p r')

def SetReaderPosList {σ τ : Type} (f : τ → Int → M σ (τ × Int)) : List Node → τ → M σ (τ × List Node)
  | [], t => Pure.pure (t, [])
  | n :: rest, t => do
    let (t, n') ← (match n with
      | .list l => do let (t, l') ← SetReaderPosList f l t; Pure.pure (t, Node.list l')
      | n => SetReaderPos1 f n t)
    let (t, rest') ← SetReaderPosList f rest t
    Pure.pure (t, n' :: rest')

def SetReaderPos {σ τ : Type} (node : Node) (f : τ → Int → M σ (τ × Int)) (t : τ) : M σ (τ × Node) :=
  match node with
  | .list l => do let (t, l') ← SetReaderPosList f l t; Pure.pure (t, .list l')
  | n => SetReaderPos1 f n t

/-- nesting depth of node lists (fuel of the translated NodeList.Append) -/
def Node.depth : Node → Nat
  | .list l => depthList l + 1
  | _ => 0
where depthList : List Node → Nat
  | [] => 0
  | n :: r => max (Node.depth n) (depthList r)

/-! ### the data package, value level -/

abbrev IntSet := List Int
abbrev IntMap := List (Int × Int)

namespace Data

def mget (m : IntMap) (k : Int) : Option Int := (m.find? (·.1 = k)).map (·.2)

def mset : IntMap → Int → Int → IntMap
  | [], k, v => [(k, v)]
  | (k', v') :: r, k, v =>
    if k < k' then (k, v) :: (k', v') :: r
    else if k = k' then (k, v) :: r
    else (k', v') :: mset r k v

def sInsert : IntSet → Int → IntSet
  | [], v => [v]
  | x :: xs, v => if v < x then v :: x :: xs else if v = x then x :: xs else x :: sInsert xs v

def EmptyIntSet : IntSet := []
def EmptyIntMap : IntMap := []

/-- data.NewIntSet(values...) -/
def NewIntSet (values : List Int) : IntSet := values.foldl sInsert []

/-- IntSet.Union -/
def IntSet_Union : IntSet → IntSet → IntSet
  | [], b => b
  | a, [] => a
  | x :: xs, y :: ys =>
    if x < y then x :: IntSet_Union xs (y :: ys)
    else if y < x then y :: IntSet_Union (x :: xs) ys
    else x :: IntSet_Union xs ys

/-- IntMap.Get -/
def IntMap_Get (m : IntMap) (k : Int) : Int := (mget m k).getD 0

/-- IntMap.Inc -/
def IntMap_Inc (m : IntMap) (k : Int) : IntMap :=
  match mget m k with
  | none => mset m k 1
  | some v => mset m k (v + 1)

/-- IntMap.Filter -/
def IntMap_Filter (m : IntMap) (keys : IntSet) : IntMap :=
  keys.foldl (fun acc key => match mget m key with | some v => mset acc key v | none => acc) []

/-- IntMap.Keys (in the canonical order; Go promises none) -/
def IntMap_Keys (m : IntMap) : List Int := m.map (·.1)

end Data

/-! ### the world: what the generated functions are parametric in -/

/-- an abstract `parsley.Parser` value -/
inductive Parser where
  | nil
  | mk (id : Nat)
deriving DecidableEq, Inhabited

instance : Inhabited Parser := ⟨.nil⟩

def Parser.isNil : Parser → Bool
  | .nil => true
  | _ => false

/-- the reader (ctx.Reader(), also after the assertion to *text.Reader): there is one, it is immutable -/
abbrev ReaderH := Unit

structure World (σ : Type) where
  /-- `p.Parse(ctx, leftRecCtx, pos)` -/
  parse : Parser → IntMap → Int → M σ (Node × IntSet × Err)
  /-- `ctx.Reader().Remaining(pos)` -/
  Reader_Remaining : Int → Int
  /-- `ctx.Reader().IsEOF(pos)` -/
  Reader_IsEOF : Int → Bool
  /-- `ctx.Reader().Pos(i)` -/
  Reader_Pos : Int → Int
  /-- `tr.SkipWhitespaces(pos, wsMode)` -/
  Reader_SkipWhitespaces : Int → Int → Int × Err
  /-- `parsley.Transform(userCtx, node)` (C13's subject) -/
  Transform : Opaque → Node → Node × Err
  /-- `parsley.StaticCheck(userCtx, node)` (C13's subject) -/
  StaticCheck : Opaque → Node → Err

end PV.CorePrelude
