/-
  HAND-WRITTEN (not generated): the run-time the TREE translator targets.
  `factgen -out-tree` turns the tree passes and the evaluation of the Go library — parsley/walk.go, static_check.go,
  transform.go, evaluate.go, the methods of ast.NonTerminalNode / NodeList / EmptyNode / TerminalNode, parser.EndNode,
  ast.InterpreterFunc.Eval and ast/interpreter/interpreter.go — statement by statement into Lean definitions
  (Generated/FactsTree.lean, regenerated on every run); this file gives the meaning of the Go constructs those
  definitions are built from.  Everything here is TRUSTED BASE.  The monad, Go `int` / strings / slices at value level
  and `parsley.Error` values are those of Generated/CorePrelude.lean (opened, without its `Node` and `World`).  What is new:

  * POINTERS.  A `*ast.NonTerminalNode` is an ADDRESS (`Ptr`); the struct it points to lives in the store's `heap`
    (`Go.load`, `Go.store`; an address without a cell: a nil / dangling pointer, dereferencing it panics).  The struct
    type itself is GENERATED from the Go declaration (FactsTree.lean: `NonTerminalNode`), the store is polymorphic in it.
    So `n.schema = schema` and `n.children[i] = x` are writes into the heap, visible through every copy of the pointer —
    a pass that mutates the tree in place is translated as such.  A slice stored in a struct field is a value (a list):
    it is assumed to be written only through that field (as everywhere in CorePrelude: aliasing of slices is not
    modelled).  `*ast.TerminalNode` is never written by the translated functions: a terminal node is a value.
  * A LOCAL VARIABLE that a function literal captures and assigns escapes to the heap (as in Go): it is a cell of
    `vars` (`Boxed.new…`, `Boxed.get…`, `Boxed.set…`).
  * DYNAMIC TYPES.  A `parsley.Node` value has one of the dynamic types the library defines (`Node`: nil, ast.EmptyNode,
    parser.EndNode, ast.NodeList, *ast.NonTerminalNode, *ast.TerminalNode); node types defined by users are NOT modelled.
    A type test `x.(I)` is `Node.asKinds ks`, where the list `ks` of the dynamic types that implement the interface
    `I` is COMPUTED by the translator from the method sets (go/types) on every run; a method call on an interface value is
    an in-line `match` on the dynamic type that calls the translated method of that type (`Go.noMethod`: a dynamic type
    that lacks the method — excluded by Go's type system after the type test).
    A `parsley.Interpreter` value (`Interp`) is nil, an interpreter.selectInterpreter, an ast.InterpreterFunc, or a value
    of a user-defined type (`custom id`): whether such a type implements an interface, and its methods, are the WORLD's.
    A value of the function type ast.InterpreterFunc is the NAME of the function (`FnName`: the function literals the
    constructors interpreter.Array / Object / Nil return, which are translated, or a user's function: the world).
    A value of type `interface{}` (`Value`): nil, a string, a []interface{}, a map[string]interface{}, or something else.
  * THE WORLD (`World`): the methods of user-defined interpreter types (StaticCheck, TransformNode, Eval — `Eval` is
    handed the translated parsley.EvaluateNode, which user interpreters call on the children), and parsley.Parse for
    parsley.Evaluate (Parse is translated and tied in FactsCore / C01P, over value-level nodes; here its result is a
    world value).
  * `ext`: a component of the store the translated code never touches — whatever call-backs and user interpreters keep.
  Core Lean only.
-/
import ParsleyVerif.Generated.CorePrelude
namespace PV.TreePrelude

open PV.CorePrelude hiding Node World

/-- a method call on a dynamic type that does not have the method: excluded by Go's type system (the value passed a type
    test for an interface with that method) -/
def Go.noMethod {σ α : Type} : M σ α := Go.panic

/-! ### `interface{}` values -/

inductive Value where
  | nil
  | str (b : Bytes)                      -- string
  | list (l : List Value)                -- []interface{}
  | smap (m : List (Bytes × Value))      -- map[string]interface{}: the association list, keys distinct
  | other (tag : Nat) (payload : Opaque) -- any other dynamic type

instance : Inhabited Value := ⟨.nil⟩

def Value.isNil : Value → Bool
  | .nil => true
  | _ => false

/-- `v.(string)` -/
def Go.assertString {σ : Type} : Value → M σ Bytes
  | .str b => pure b
  | _ => Go.panic

/-- map[string]V, made by `make`: the association list in insertion order -/
abbrev SMap (α : Type) := List (Bytes × α)

/-- `make(map[string]V, n)` -/
def Go.mkSMap {α : Type} : SMap α := []

/-- `m[k] = v` -/
def Go.smapSet {α : Type} : SMap α → Bytes → α → SMap α
  | [], k, v => [(k, v)]
  | (k', v') :: r, k, v => if k = k' then (k, v) :: r else (k', v') :: Go.smapSet r k v

/-! ### interpreters -/

/-- a value of type ast.InterpreterFunc: which function -/
inductive FnName where
  | Array          -- the function literal interpreter.Array() returns
  | Object         -- … interpreter.Object()
  | Nil            -- … interpreter.Nil()
  | user (id : Nat)
deriving DecidableEq, Inhabited

/-- interpreter.selectInterpreter -/
structure selectInterpreter where
  i : Int
deriving DecidableEq, Inhabited

inductive Interp where
  | nil
  | select (s : selectInterpreter)   -- interpreter.selectInterpreter
  | fn (f : FnName)                  -- ast.InterpreterFunc
  | custom (id : Nat)                -- a user-defined type
deriving DecidableEq, Inhabited

instance : Inhabited Interp := ⟨.nil⟩

def Interp.isNil : Interp → Bool
  | .nil => true
  | _ => false

inductive IKind where
  | select | fn
deriving DecidableEq

/-- `x, ok := i.(I)` for an interface `I`: `ks` = the library's interpreter types that implement `I` (computed by the
    translator), `implements id name` = does the user-defined type `id` implement the interface called `name` -/
def Interp.asIface (implements : Nat → Bytes → Bool) (ks : List IKind) (name : Bytes) : Interp → Interp × Bool
  | .nil => (.nil, false)
  | .select s => if ks.contains .select then (.select s, true) else (.nil, false)
  | .fn f => if ks.contains .fn then (.fn f, true) else (.nil, false)
  | .custom id => if implements id name then (.custom id, true) else (.nil, false)

/-! ### nodes -/

abbrev Ptr := Nat

/-- *ast.TerminalNode (a value: the translated functions only read it) -/
structure TerminalNode where
  schema : Value
  token : Bytes
  value : Value
  pos : Int
  readerPos : Int

instance : Inhabited TerminalNode := ⟨{ schema := .nil, token := [], value := .nil, pos := 0, readerPos := 0 }⟩

inductive Node where
  | nil
  | empty (pos : Int)        -- ast.EmptyNode
  | eof (pos : Int)          -- parser.EndNode
  | list (l : List Node)     -- ast.NodeList
  | ref (p : Ptr)            -- *ast.NonTerminalNode
  | term (t : TerminalNode)  -- *ast.TerminalNode

instance : Inhabited Node := ⟨.nil⟩

def Node.isNil : Node → Bool
  | .nil => true
  | _ => false

inductive Kind where
  | empty | eof | list | ref | term
deriving DecidableEq

def Node.kind : Node → Option Kind
  | .nil => none
  | .empty _ => some .empty
  | .eof _ => some .eof
  | .list _ => some .list
  | .ref _ => some .ref
  | .term _ => some .term

/-- does the dynamic type of `n` belong to `ks` -/
def Node.hasKind (ks : List Kind) (n : Node) : Bool :=
  match n.kind with
  | some k => ks.contains k
  | none => false

/-- `x, ok := n.(I)` for an interface `I` implemented by exactly the dynamic types `ks` (nil: no) -/
def Node.asKinds (ks : List Kind) (n : Node) : Node × Bool :=
  if n.hasKind ks then (n, true) else (.nil, false)

/-- `n.(I)` with one result: panics when the test fails -/
def Node.assertKinds {σ : Type} (ks : List Kind) (n : Node) : M σ Node :=
  if n.hasKind ks then pure n else Go.panic

/-! ### the store -/

/-- a local variable that escaped to the heap -/
inductive Boxed where
  | err (e : Err)
  | node (n : Node)
  | int (i : Int)
  | bool (b : Bool)
  | value (v : Value)

structure Store (C : Type) where
  /-- the *ast.NonTerminalNode cells -/
  heap : Ptr → Option C
  /-- escaped local variables, in the order of their declaration -/
  vars : List Boxed
  /-- ctx.UserContext() -/
  userCtx : Value
  /-- not touched by the translated code -/
  ext : Opaque

/-- `*p` -/
def Go.load {C : Type} (p : Ptr) : M (Store C) C := fun s =>
  match s.heap p with
  | some c => .ok c s
  | none => .panic

/-- `*p = c` -/
def Go.store {C : Type} (p : Ptr) (c : C) : M (Store C) Unit := fun s =>
  match s.heap p with
  | some _ => .ok () { s with heap := fun q => if q = p then some c else s.heap q }
  | none => .panic

def Boxed.new {C : Type} (b : Boxed) : M (Store C) Nat := fun s => .ok s.vars.length { s with vars := s.vars ++ [b] }

def Boxed.get {C : Type} (r : Nat) : M (Store C) Boxed := fun s =>
  match s.vars[r]? with
  | some b => .ok b s
  | none => .panic

def Boxed.set {C : Type} (r : Nat) (b : Boxed) : M (Store C) Unit := fun s =>
  if r < s.vars.length then .ok () { s with vars := s.vars.set r b } else .panic

def Boxed.newErr {C : Type} (e : Err) : M (Store C) Nat := Boxed.new (.err e)
def Boxed.getErr {C : Type} (r : Nat) : M (Store C) Err := do
  match (← Boxed.get r) with
  | .err e => pure e
  | _ => Go.panic
def Boxed.setErr {C : Type} (r : Nat) (e : Err) : M (Store C) Unit := Boxed.set r (.err e)

def Boxed.newNode {C : Type} (n : Node) : M (Store C) Nat := Boxed.new (.node n)
def Boxed.getNode {C : Type} (r : Nat) : M (Store C) Node := do
  match (← Boxed.get r) with
  | .node n => pure n
  | _ => Go.panic
def Boxed.setNode {C : Type} (r : Nat) (n : Node) : M (Store C) Unit := Boxed.set r (.node n)

def Boxed.newInt {C : Type} (i : Int) : M (Store C) Nat := Boxed.new (.int i)
def Boxed.getInt {C : Type} (r : Nat) : M (Store C) Int := do
  match (← Boxed.get r) with
  | .int i => pure i
  | _ => Go.panic
def Boxed.setInt {C : Type} (r : Nat) (i : Int) : M (Store C) Unit := Boxed.set r (.int i)

def Boxed.newBool {C : Type} (b : Bool) : M (Store C) Nat := Boxed.new (.bool b)
def Boxed.getBool {C : Type} (r : Nat) : M (Store C) Bool := do
  match (← Boxed.get r) with
  | .bool b => pure b
  | _ => Go.panic
def Boxed.setBool {C : Type} (r : Nat) (b : Bool) : M (Store C) Unit := Boxed.set r (.bool b)

def Boxed.newValue {C : Type} (v : Value) : M (Store C) Nat := Boxed.new (.value v)
def Boxed.getValue {C : Type} (r : Nat) : M (Store C) Value := do
  match (← Boxed.get r) with
  | .value v => pure v
  | _ => Go.panic
def Boxed.setValue {C : Type} (r : Nat) (v : Value) : M (Store C) Unit := Boxed.set r (.value v)

/-! ### the world -/

structure World (σ : Type) where
  /-- does the user-defined interpreter type `id` implement the interface with this (qualified) name -/
  implements : Nat → Bytes → Bool
  /-- `i.StaticCheck(userCtx, node)` for an interpreter of the user-defined type `id` -/
  StaticCheck : Nat → Value → Node → M σ (Value × Err)
  /-- `i.TransformNode(userCtx, node)` -/
  TransformNode : Nat → Value → Node → M σ (Node × Err)
  /-- `i.Eval(userCtx, node)` for an interpreter of a user-defined type (`Interp.custom id`) or a user's
      ast.InterpreterFunc (`Interp.fn (.user id)`); the first argument is parsley.EvaluateNode -/
  Eval : (Value → Node → M σ (Value × Err)) → Interp → Value → Node → M σ (Value × Err)
  /-- `parsley.Parse(ctx, p)` -/
  Parse : Parser → M σ (Node × Cause)

end PV.TreePrelude
