/-
  HAND-WRITTEN (not generated): the run-time the STATEMENT-level translator targets.
  `factgen -out-prog` turns whole Go functions into Lean definitions in the monad `M` below
  (Generated/FactsProg.lean, regenerated on every run); this file gives the meaning of the Go
  constructs those definitions are built from.  Everything here is TRUSTED BASE: it states, once,
  what Go's slices, maps, `append`, `copy`, `make`, slicing, indexing and `sort.SearchInts` do.

  * Go `int` (and byte, rune, named integer types) is `Int` (unbounded: overflow is not modelled).
  * A slice is a header (array, offset, length, capacity) into a heap of arrays; two headers over one
    array alias, exactly as in Go.  `append` writes in place when len < cap and allocates otherwise;
    the growth policy is the field `grow` of the state, never changed by any operation, so every
    theorem holds for every policy.
  * A map is a handle (`none` = the nil map) into a heap of association lists kept in ascending key
    order (a Go map has no order; ranging over a map visits the entries in this canonical order).
  * An index or slice bound outside its range, a write to a nil map, a negative `make` size is the
    outcome `Res.panic` — never a default value.  A loop that runs longer than its generated fuel is
    the distinct outcome `Res.nofuel`, never a value either.
  * A value of an interface type is an opaque record `Obj` (see below); a struct stored in an interface is the record of
    its fields, a call of one of the few external constructor functions the translator knows (parsley.NewError) is the
    record of its arguments, a package-level variable of interface type is its name.
  * `sort.SearchInts(a, x)` is ASSUMED to be "the least index i with a[i] ≥ x, len(a) if there is none"
    — its documented meaning on an ascending slice.  (On a slice that is not ascending the real binary
    search may answer differently; the theorems that use it carry the sortedness hypothesis.)
  * `sort.Search(n, f)` likewise: the least i in [0, n) with f(i), n if there is none; `f` is evaluated
    by a left-to-right scan, so a panic of `f` on an index below the answer is a panic of the search.
  Core Lean only.
-/
namespace PV.ProgPrelude

/-- slice header: the elements are `array[off .. off+len)`, the capacity is counted from `off` -/
structure Sl where
  arr : Nat
  off : Nat
  len : Nat
  cap : Nat
  isNil : Bool := false
deriving Repr, DecidableEq, Inhabited

/-- a value of an interface type, kept opaque: nil, a package-level variable (by name), or a record — the dynamic
    type's name (or the name of the external constructor function that made it) with its integer, string and
    interface-typed fields/arguments in order.  Nothing is assumed about such a value beyond what it was built from. -/
inductive Obj where
  | nil
  | named (name : String)
  | mk (tag : String) (ints : List Int) (strs : List String) (objs : List Obj)
deriving Inhabited

def Obj.isNil : Obj → Bool
  | .nil => true
  | _ => false

/-- map handle; `none` is the nil map -/
abbrev Mp := Option Nat

structure St where
  arrays : List (List Int)
  maps : List (List (Int × Int))
  grow : Nat → Nat

inductive Res (α : Type) where
  | ok (a : α) (s : St)
  | panic
  | nofuel

def M (α : Type) : Type := St → Res α

def M.pure {α : Type} (a : α) : M α := fun s => .ok a s

def M.bind {α β : Type} (x : M α) (f : α → M β) : M β := fun s =>
  match x s with
  | .ok a s' => f a s'
  | .panic => .panic
  | .nofuel => .nofuel

instance : Monad M where
  pure := M.pure
  bind := M.bind

/-- a Go run-time panic -/
def Go.panic {α : Type} : M α := fun _ => .panic

/-- the generated fuel of a loop did not suffice -/
def Go.outOfFuel {α : Type} : M α := fun _ => .nofuel

/-! ### slices -/

def cells (st : St) (a : Nat) : List Int := st.arrays.getD a []

/-- the elements a holder of the header sees -/
def view (st : St) (s : Sl) : List Int := ((cells st s.arr).drop s.off).take s.len

/-- the nil slice -/
def Go.nilSl : Sl := { arr := 0, off := 0, len := 0, cap := 0, isNil := true }

/-- `len(s)` -/
def Go.len (s : Sl) : Int := s.len

/-- `cap(s)` -/
def Go.cap (s : Sl) : Int := s.cap

/-- `s[i]` as a value -/
def Go.idx (s : Sl) (i : Int) : M Int := fun st =>
  if 0 ≤ i ∧ i < s.len then
    match (cells st s.arr)[s.off + i.toNat]? with
    | some v => .ok v st
    | none => .panic
  else .panic

/-- `s[i] = v` -/
def Go.setIdx (s : Sl) (i : Int) (v : Int) : M Unit := fun st =>
  if 0 ≤ i ∧ i < s.len ∧ s.off + i.toNat < (cells st s.arr).length then
    .ok () { st with arrays := st.arrays.modify s.arr (fun c => c.set (s.off + i.toNat) v) }
  else .panic

/-- `s[lo:hi]` -/
def Go.slice (s : Sl) (lo hi : Int) : M Sl := fun st =>
  if 0 ≤ lo ∧ lo ≤ hi ∧ hi ≤ s.cap then
    .ok { arr := s.arr, off := s.off + lo.toNat, len := hi.toNat - lo.toNat, cap := s.cap - lo.toNat, isNil := s.isNil } st
  else .panic

/-- `s[lo:]` -/
def Go.sliceFrom (s : Sl) (lo : Int) : M Sl := fun st =>
  if 0 ≤ lo ∧ lo ≤ s.len then
    .ok { arr := s.arr, off := s.off + lo.toNat, len := s.len - lo.toNat, cap := s.cap - lo.toNat, isNil := s.isNil } st
  else .panic

/-- `s[:hi]` -/
def Go.sliceTo (s : Sl) (hi : Int) : M Sl := Go.slice s 0 hi

/-- `make([]T, l, c)` -/
def Go.mkSlice (l c : Int) : M Sl := fun st =>
  if 0 ≤ l ∧ l ≤ c then
    .ok { arr := st.arrays.length, off := 0, len := l.toNat, cap := c.toNat }
        { st with arrays := st.arrays ++ [List.replicate c.toNat 0] }
  else .panic

/-- `[]T{v₁, …, vₙ}` -/
def Go.litSlice (vs : List Int) : M Sl := fun st =>
  .ok { arr := st.arrays.length, off := 0, len := vs.length, cap := vs.length }
      { st with arrays := st.arrays ++ [vs] }

/-- `append(s, v)` -/
def Go.append (s : Sl) (v : Int) : M Sl := fun st =>
  if s.len < s.cap then
    .ok { s with len := s.len + 1, isNil := false }
        { st with arrays := st.arrays.modify s.arr (fun c => c.set (s.off + s.len) v) }
  else
    let cap' := max (st.grow s.cap) (s.len + 1)
    .ok { arr := st.arrays.length, off := 0, len := s.len + 1, cap := cap' }
        { st with arrays := st.arrays ++ [view st s ++ [v] ++ List.replicate (cap' - (s.len + 1)) 0] }

/-- `copy(dst, src)`: min(len) elements, read before any is written (memmove) -/
def Go.copy (dst src : Sl) : M Int := fun st =>
  let n := min dst.len src.len
  let vals := (view st src).take n
  .ok (n : Int)
      { st with arrays := st.arrays.modify dst.arr (fun c => c.take dst.off ++ vals ++ c.drop (dst.off + n)) }

/-- least index whose element is ≥ x; the length if there is none -/
def leastGE : List Int → Int → Nat
  | [], _ => 0
  | a :: r, x => if a ≥ x then 0 else leastGE r x + 1

/-- `sort.SearchInts(s, x)` (assumed meaning, see the header) -/
def Go.searchInts (s : Sl) (x : Int) : M Int := fun st => .ok (leastGE (view st s) x : Nat) st

/-- `sort.Search(n, f)` (assumed meaning, see the header): scan `k` more indices from `i` -/
def searchFrom (f : Int → M Bool) : Nat → Int → M Int
  | 0, i => Pure.pure i
  | k + 1, i => do
    let b ← f i
    if b then Pure.pure i else searchFrom f k (i + 1)

def Go.search (n : Int) (f : Int → M Bool) : M Int :=
  if 0 ≤ n then searchFrom f n.toNat 0 else Pure.pure 0

/-! ### maps -/

def mobj (st : St) (i : Nat) : List (Int × Int) := st.maps.getD i []

def mget (m : List (Int × Int)) (k : Int) : Option Int := (m.find? (·.1 = k)).map (·.2)

/-- insert or overwrite, keeping the keys ascending -/
def mset : List (Int × Int) → Int → Int → List (Int × Int)
  | [], k, v => [(k, v)]
  | (k', v') :: r, k, v =>
    if k < k' then (k, v) :: (k', v') :: r
    else if k = k' then (k, v) :: r
    else (k', v') :: mset r k v

/-- `make(map[K]V)` / `make(map[K]V, n)` -/
def Go.mkMap : M Mp := fun st => .ok (some st.maps.length) { st with maps := st.maps ++ [[]] }

/-- `m[k]` as a value (0 when absent, also for the nil map) -/
def Go.mapGet (m : Mp) (k : Int) : M Int := fun st =>
  match m with
  | none => .ok 0 st
  | some i => .ok ((mget (mobj st i) k).getD 0) st

/-- `v, ok := m[k]` -/
def Go.mapGet2 (m : Mp) (k : Int) : M (Int × Bool) := fun st =>
  match m with
  | none => .ok (0, false) st
  | some i =>
    match mget (mobj st i) k with
    | some v => .ok (v, true) st
    | none => .ok (0, false) st

/-- `m[k] = v` -/
def Go.mapSet (m : Mp) (k v : Int) : M Unit := fun st =>
  match m with
  | none => .panic
  | some i => if i < st.maps.length then .ok () { st with maps := st.maps.modify i (fun o => mset o k v) } else .panic

/-- `len(m)` -/
def Go.mapLen (m : Mp) : M Int := fun st =>
  match m with
  | none => .ok 0 st
  | some i => .ok ((mobj st i).length : Nat) st

/-- the entries a `range` over the map visits (canonical order; snapshot at loop entry) -/
def Go.mapEntries (m : Mp) : M (List (Int × Int)) := fun st =>
  match m with
  | none => .ok [] st
  | some i => .ok (mobj st i) st

end PV.ProgPrelude
