/-
  HAND-WRITTEN (not generated): the run-time the STATEMENT-level translator targets.
  `factgen -out-prog` turns whole Go functions into Lean definitions in the monad `M` below
  (Generated/FactsProg.lean, regenerated on every run); this file gives the meaning of the Go
  constructs those definitions are built from.  Everything here is TRUSTED BASE: it states, once,
  what Go's slices, maps, `append`, `copy`, `make`, slicing, indexing and `sort.SearchInts` do.

  * Go `int` (and byte, rune, named integer types) is `Int` (unbounded: overflow is not modelled).
  * A slice is a header (array, offset, length, capacity) into a heap of arrays; two headers over one
    array alias, exactly as in Go.  `append` writes in place when len < cap and allocates otherwise;
    the growth policy is the field `grow` of the state, never changed by any operation, so every
    theorem holds for every policy.
  * A map is a handle (`none` = the nil map) into a heap of association lists kept in ascending key
    order (a Go map has no order; ranging over a map visits the entries in this canonical order).
  * An index or slice bound outside its range, a write to a nil map, a negative `make` size is the
    outcome `Res.panic` — never a default value.  A loop that runs longer than its generated fuel is
    the distinct outcome `Res.nofuel`, never a value either.
  * A value of an interface type is an opaque record `Obj` (see below); a struct stored in an interface is the record of
    its fields, a call of one of the few external constructor functions the translator knows (parsley.NewError) is the
    record of its arguments, a package-level variable of interface type is its name.
  * `sort.SearchInts(a, x)` is ASSUMED to be "the least index i with a[i] ≥ x, len(a) if there is none"
    — its documented meaning on an ascending slice.  (On a slice that is not ascending the real binary
    search may answer differently; the theorems that use it carry the sortedness hypothesis.)
  * `sort.Search(n, f)` likewise: the least i in [0, n) with f(i), n if there is none; `f` is evaluated
    by a left-to-right scan, so a panic of `f` on an index below the answer is a panic of the search.
  * SECOND BATCH (text level; the section at the end of this file): a Go string used as bytes is `Str`, a list of
    integers (a struct field of type string stays a Lean `String`); `[]byte(s)`, `string(b)`, `string(rune)`,
    `append(b, s...)`, `len`, `s[i]` are defined there; a lossy integer conversion wraps (`Go.wrap`); a slice of structs is
    an owned Lean list; `utf8.DecodeRune` and the encoding behind `string(rune)` are ASSUMED to be Model/Utf8.lean's
    transcription of unicode/utf8 (the only import of this file; C09 proves the decoder inverse to the encoder on every
    scalar value); `bytes.HasPrefix` is "begins with"; `bytes.Replace(s, old, new, -1)` /
    `bytes.ReplaceAll` is ASSUMED to be its documented meaning (`Go.bytesReplaceAll`: every non-overlapping occurrence from
    the left, result in a fresh array); `fmt.Sprintf` is the concatenation of the pieces the translator
    parses the constant format into (%s, %d); the regexp engine and `strconv.UnquoteChar` are NOT given a meaning: they
    are fields of the world `Ext` that the translated functions take as a parameter.
  * THIRD BATCH (the error-rendering path; the section "error values" at the end of this file, translator side
    harness/cmd/factgen/progerr.go): a value of an error interface (`error`, parsley.Error) is OBSERVED ONLY THROUGH ITS PURE
    METHODS `Error()` and (for parsley.Error) `Pos()`: it is the record `Go.mkErr tag pos text` = `Obj.mk tag (pos :: text)
    [] []` — the dynamic type's (or constructor's) name, a position slot, then the BYTES of `Error()` (bytes, not text: a
    message may quote input that is not UTF-8); `e.Pos()` / `e.Error()` are the components `Go.errPos` / `Go.errText`
    (ASSUMED pure: the same answer every time, no effect on the heap; on the nil interface they are a panic, as in Go).
    `fmt.Errorf(format, args…)` is ASSUMED to satisfy  fmt.Errorf(format, args…).Error() = fmt.Sprintf(format, args…)  (its
    documented meaning for a format without %w; the translator accepts a constant format of literal text, %s, %d, %%
    only): `Go.errorf text` = `Go.mkErr "fmt.Errorf" 0 text` (the result has no `Pos`; the slot is 0).
    `x == C` for an interface value x and a constant C of a named integer type (`pos == NilPosition`) is `Obj.isInt`: same
    dynamic type (the tag) and same value — Go's comparison of interface values.  A method call on an interface value
    that is neither of the above (`pos.String()`) is a generated match on the tag, one arm per implementing type of the
    translated packages, each arm calling that type's TRANSLATED method; nil and any other dynamic type is `Res.panic`.
  Core Lean only.
-/
import ParsleyVerif.Model.Utf8
namespace PV.ProgPrelude

/-- slice header: the elements are `array[off .. off+len)`, the capacity is counted from `off` -/
structure Sl where
  arr : Nat
  off : Nat
  len : Nat
  cap : Nat
  isNil : Bool := false
deriving Repr, DecidableEq, Inhabited

/-- a value of an interface type, kept opaque: nil, a package-level variable (by name), or a record — the dynamic
    type's name (or the name of the external constructor function that made it) with its integer, string and
    interface-typed fields/arguments in order.  Nothing is assumed about such a value beyond what it was built from. -/
inductive Obj where
  | nil
  | named (name : String)
  | mk (tag : String) (ints : List Int) (strs : List String) (objs : List Obj)
deriving Inhabited

def Obj.isNil : Obj → Bool
  | .nil => true
  | _ => false

/-- map handle; `none` is the nil map -/
abbrev Mp := Option Nat

structure St where
  arrays : List (List Int)
  maps : List (List (Int × Int))
  grow : Nat → Nat

inductive Res (α : Type) where
  | ok (a : α) (s : St)
  | panic
  | nofuel

def M (α : Type) : Type := St → Res α

def M.pure {α : Type} (a : α) : M α := fun s => .ok a s

def M.bind {α β : Type} (x : M α) (f : α → M β) : M β := fun s =>
  match x s with
  | .ok a s' => f a s'
  | .panic => .panic
  | .nofuel => .nofuel

instance : Monad M where
  pure := M.pure
  bind := M.bind

/-- a Go run-time panic -/
def Go.panic {α : Type} : M α := fun _ => .panic

/-- the generated fuel of a loop did not suffice -/
def Go.outOfFuel {α : Type} : M α := fun _ => .nofuel

/-! ### slices -/

def cells (st : St) (a : Nat) : List Int := st.arrays.getD a []

/-- the elements a holder of the header sees -/
def view (st : St) (s : Sl) : List Int := ((cells st s.arr).drop s.off).take s.len

/-- the nil slice -/
def Go.nilSl : Sl := { arr := 0, off := 0, len := 0, cap := 0, isNil := true }

/-- `len(s)` -/
def Go.len (s : Sl) : Int := s.len

/-- `cap(s)` -/
def Go.cap (s : Sl) : Int := s.cap

/-- `s[i]` as a value -/
def Go.idx (s : Sl) (i : Int) : M Int := fun st =>
  if 0 ≤ i ∧ i < s.len then
    match (cells st s.arr)[s.off + i.toNat]? with
    | some v => .ok v st
    | none => .panic
  else .panic

/-- `s[i] = v` -/
def Go.setIdx (s : Sl) (i : Int) (v : Int) : M Unit := fun st =>
  if 0 ≤ i ∧ i < s.len ∧ s.off + i.toNat < (cells st s.arr).length then
    .ok () { st with arrays := st.arrays.modify s.arr (fun c => c.set (s.off + i.toNat) v) }
  else .panic

/-- `s[lo:hi]` -/
def Go.slice (s : Sl) (lo hi : Int) : M Sl := fun st =>
  if 0 ≤ lo ∧ lo ≤ hi ∧ hi ≤ s.cap then
    .ok { arr := s.arr, off := s.off + lo.toNat, len := hi.toNat - lo.toNat, cap := s.cap - lo.toNat, isNil := s.isNil } st
  else .panic

/-- `s[lo:]` -/
def Go.sliceFrom (s : Sl) (lo : Int) : M Sl := fun st =>
  if 0 ≤ lo ∧ lo ≤ s.len then
    .ok { arr := s.arr, off := s.off + lo.toNat, len := s.len - lo.toNat, cap := s.cap - lo.toNat, isNil := s.isNil } st
  else .panic

/-- `s[:hi]` -/
def Go.sliceTo (s : Sl) (hi : Int) : M Sl := Go.slice s 0 hi

/-- `make([]T, l, c)` -/
def Go.mkSlice (l c : Int) : M Sl := fun st =>
  if 0 ≤ l ∧ l ≤ c then
    .ok { arr := st.arrays.length, off := 0, len := l.toNat, cap := c.toNat }
        { st with arrays := st.arrays ++ [List.replicate c.toNat 0] }
  else .panic

/-- `[]T{v₁, …, vₙ}` -/
def Go.litSlice (vs : List Int) : M Sl := fun st =>
  .ok { arr := st.arrays.length, off := 0, len := vs.length, cap := vs.length }
      { st with arrays := st.arrays ++ [vs] }

/-- `append(s, v)` -/
def Go.append (s : Sl) (v : Int) : M Sl := fun st =>
  if s.len < s.cap then
    .ok { s with len := s.len + 1, isNil := false }
        { st with arrays := st.arrays.modify s.arr (fun c => c.set (s.off + s.len) v) }
  else
    let cap' := max (st.grow s.cap) (s.len + 1)
    .ok { arr := st.arrays.length, off := 0, len := s.len + 1, cap := cap' }
        { st with arrays := st.arrays ++ [view st s ++ [v] ++ List.replicate (cap' - (s.len + 1)) 0] }

/-- `copy(dst, src)`: min(len) elements, read before any is written (memmove) -/
def Go.copy (dst src : Sl) : M Int := fun st =>
  let n := min dst.len src.len
  let vals := (view st src).take n
  .ok (n : Int)
      { st with arrays := st.arrays.modify dst.arr (fun c => c.take dst.off ++ vals ++ c.drop (dst.off + n)) }

/-- least index whose element is ≥ x; the length if there is none -/
def leastGE : List Int → Int → Nat
  | [], _ => 0
  | a :: r, x => if a ≥ x then 0 else leastGE r x + 1

/-- `sort.SearchInts(s, x)` (assumed meaning, see the header) -/
def Go.searchInts (s : Sl) (x : Int) : M Int := fun st => .ok (leastGE (view st s) x : Nat) st

/-- `sort.Search(n, f)` (assumed meaning, see the header): scan `k` more indices from `i` -/
def searchFrom (f : Int → M Bool) : Nat → Int → M Int
  | 0, i => Pure.pure i
  | k + 1, i => do
    let b ← f i
    if b then Pure.pure i else searchFrom f k (i + 1)

def Go.search (n : Int) (f : Int → M Bool) : M Int :=
  if 0 ≤ n then searchFrom f n.toNat 0 else Pure.pure 0

/-! ### maps -/

def mobj (st : St) (i : Nat) : List (Int × Int) := st.maps.getD i []

def mget (m : List (Int × Int)) (k : Int) : Option Int := (m.find? (·.1 = k)).map (·.2)

/-- insert or overwrite, keeping the keys ascending -/
def mset : List (Int × Int) → Int → Int → List (Int × Int)
  | [], k, v => [(k, v)]
  | (k', v') :: r, k, v =>
    if k < k' then (k, v) :: (k', v') :: r
    else if k = k' then (k, v) :: r
    else (k', v') :: mset r k v

/-- `make(map[K]V)` / `make(map[K]V, n)` -/
def Go.mkMap : M Mp := fun st => .ok (some st.maps.length) { st with maps := st.maps ++ [[]] }

/-- `m[k]` as a value (0 when absent, also for the nil map) -/
def Go.mapGet (m : Mp) (k : Int) : M Int := fun st =>
  match m with
  | none => .ok 0 st
  | some i => .ok ((mget (mobj st i) k).getD 0) st

/-- `v, ok := m[k]` -/
def Go.mapGet2 (m : Mp) (k : Int) : M (Int × Bool) := fun st =>
  match m with
  | none => .ok (0, false) st
  | some i =>
    match mget (mobj st i) k with
    | some v => .ok (v, true) st
    | none => .ok (0, false) st

/-- `m[k] = v` -/
def Go.mapSet (m : Mp) (k v : Int) : M Unit := fun st =>
  match m with
  | none => .panic
  | some i => if i < st.maps.length then .ok () { st with maps := st.maps.modify i (fun o => mset o k v) } else .panic

/-- `len(m)` -/
def Go.mapLen (m : Mp) : M Int := fun st =>
  match m with
  | none => .ok 0 st
  | some i => .ok ((mobj st i).length : Nat) st

/-- the entries a `range` over the map visits (canonical order; snapshot at loop entry) -/
def Go.mapEntries (m : Mp) : M (List (Int × Int)) := fun st =>
  match m with
  | none => .ok [] st
  | some i => .ok (mobj st i) st

/-! ### byte strings, conversions, the standard library (second batch: text level) -/

/-- a Go string that is used as bytes (a parameter, a local variable, a result): the list of its bytes.
    (A struct field of type string — a file name — is a Lean `String`; the translator lets nothing flow between the two.) -/
abbrev Str := List Int

/-- the bytes of a string constant (Go source text is UTF-8) -/
def Go.lit (s : String) : Str := s.toUTF8.data.toList.map (fun b => (b.toNat : Int))

/-- `len(s)` of a string -/
def Go.strLen (s : Str) : Int := s.length

/-- `s[i]` of a string -/
def Go.strIdx (s : Str) (i : Int) : M Int := fun st =>
  if 0 ≤ i then
    match s[i.toNat]? with
    | some v => .ok v st
    | none => .panic
  else .panic

/-- `[]byte(s)`: a fresh array holding the bytes (its capacity is the growth policy's choice, at least the length) -/
def Go.bytesOf (s : Str) : M Sl := fun st =>
  let cap' := max (st.grow s.length) s.length
  .ok { arr := st.arrays.length, off := 0, len := s.length, cap := cap' }
      { st with arrays := st.arrays ++ [s ++ List.replicate (cap' - s.length) 0] }

/-- `string(b)`: the bytes the slice shows -/
def Go.strOf (s : Sl) : M Str := fun st => .ok (view st s) st

/-- `string(r)` of a rune: its UTF-8 encoding, "�" for a value that is not a valid rune (utf8.AppendRune;
    the encoder is Model/Utf8.lean's transcription of unicode/utf8) -/
def Go.runeStr (c : Int) : Str :=
  (Utf8.encodeRune (if c < 0 then Utf8.runeError else c.toNat)).map Int.ofNat

/-- `append(s, vs...)`: in place when the capacity suffices, else a fresh array (one growth step) -/
def Go.appendList (s : Sl) (vs : List Int) : M Sl := fun st =>
  if vs = [] then .ok s st
  else if s.len + vs.length ≤ s.cap then
    .ok { s with len := s.len + vs.length, isNil := false }
        { st with arrays := st.arrays.modify s.arr (fun c => c.take (s.off + s.len) ++ vs ++ c.drop (s.off + s.len + vs.length)) }
  else
    let cap' := max (st.grow s.cap) (s.len + vs.length)
    .ok { arr := st.arrays.length, off := 0, len := s.len + vs.length, cap := cap' }
        { st with arrays := st.arrays ++ [view st s ++ vs ++ List.replicate (cap' - (s.len + vs.length)) 0] }

/-- `append(s, t...)` for a slice t -/
def Go.appendSl (s t : Sl) : M Sl := fun st => Go.appendList s (view st t) st

/-- `append(s, str...)` for a string -/
def Go.appendStr (s : Sl) (str : Str) : M Sl := Go.appendList s str

/-- an integer conversion that can lose information: the value wraps around into the range of the target type
    (`bits` wide, two's complement when `signed`) -/
def Go.wrap (bits : Nat) (signed : Bool) (v : Int) : Int :=
  if signed then (v + 2 ^ (bits - 1)) % 2 ^ bits - 2 ^ (bits - 1) else v % 2 ^ bits

/-- `bytes.HasPrefix(a, b)`: a begins with b -/
def Go.hasPrefix (a b : Sl) : M Bool := fun st => .ok ((view st b).isPrefixOf (view st a)) st

/-- does `old` occur in the bytes (`bytes.Count(s, old) ≠ 0`; the empty `old` occurs everywhere) -/
def occursIn (old : List Int) : List Int → Bool
  | [] => old.isPrefixOf []
  | b :: r => old.isPrefixOf (b :: r) || occursIn old r

/-- the bytes `bytes.Replace(s, old, new, -1)` / `bytes.ReplaceAll(s, old, new)` returns, for a NON-EMPTY `old`: the
    occurrences of `old` are found from left to right without overlap (the search resumes behind an occurrence) and each
    is replaced by `new`.  `skip` counts the bytes of the occurrence being skipped (0 at the call). -/
def replaceAll (old new : List Int) : Nat → List Int → List Int
  | _, [] => []
  | skip + 1, _ :: r => replaceAll old new skip r
  | 0, b :: r =>
    if old.isPrefixOf (b :: r) then new ++ replaceAll old new (old.length - 1) r else b :: replaceAll old new 0 r

/-- … and for the EMPTY `old` (documented: "it matches at the beginning of the slice and after each UTF-8 sequence"):
    `new`, then every UTF-8 sequence followed by `new`; the widths are Model/Utf8.lean's `decodeRune`.  `rem` counts the
    bytes of the current sequence still to be copied (0 at a sequence's first byte and at the call, which the caller
    precedes by the first `new`).  No function translated so far reaches this case. -/
def insertAfterRunes (new : List Int) : Nat → List Int → List Int
  | _, [] => []
  | rem, b :: r =>
    let n := if rem = 0 then (Utf8.decodeRune ((b :: r).map Int.toNat)).2 else rem
    if n ≤ 1 then b :: (new ++ insertAfterRunes new 0 r) else b :: insertAfterRunes new (n - 1) r

/-- `bytes.Replace(s, old, new, -1)` and `bytes.ReplaceAll(s, old, new)` (the translator accepts `Replace` only with the
    constant -1 as its last argument; any other count is outside the subset).  As in the standard library: when `old` does
    not occur the result is `append([]byte(nil), s...)` (a copy; nil for an empty `s`), otherwise a fresh array of exactly
    the result's length.  The result never shares an array with an argument. -/
def Go.bytesReplaceAll (s old new : Sl) : M Sl := fun st =>
  let o := view st old
  let src := view st s
  if occursIn o src then
    let out := if o = [] then view st new ++ insertAfterRunes (view st new) 0 src else replaceAll o (view st new) 0 src
    .ok { arr := st.arrays.length, off := 0, len := out.length, cap := out.length } { st with arrays := st.arrays ++ [out] }
  else Go.appendList Go.nilSl src st

/-- `utf8.DecodeRune(p)`: (rune, width) — ASSUMED to be Model/Utf8.lean's transcription of unicode/utf8.DecodeRune
    (empty: (RuneError, 0); invalid or short: (RuneError, 1)) on the bytes the slice shows -/
def Go.decodeRune (p : Sl) : M (Int × Int) := fun st =>
  let rw := Utf8.decodeRune ((view st p).map Int.toNat)
  .ok ((rw.1 : Int), (rw.2 : Int)) st

/-- the world outside the repository that the translated functions call and the prelude gives no meaning to:
    every theorem about them holds for every such world, or names the property of it that it needs -/
structure Ext where
  /-- `r.getPattern(expr).FindIndex(b)` — the regexp engine on the pattern "^(?:" + expr + ")": none = no match (nil),
      some (lo, hi) = the two-element result.  (getPattern's own panics — an expression that does not compile or that
      matches the empty input — are outside: getPattern is not translated.) -/
  findIndex : Str → List Int → Option (Int × Int)
  /-- `strconv.UnquoteChar(s, quote)`: none = an error (value 0, multibyte false, tail "" come back with it),
      some (value, multibyte, tail) -/
  unquoteChar : Str → Int → Option (Int × Bool × Str)

/-- `r.getPattern(expr).FindIndex(b)`: nil, or a fresh two-element slice -/
def Go.findIndex (X : Ext) (expr : Str) (b : Sl) : M Sl := fun st =>
  match X.findIndex expr (view st b) with
  | none => .ok Go.nilSl st
  | some (lo, hi) =>
    .ok { arr := st.arrays.length, off := 0, len := 2, cap := 2 } { st with arrays := st.arrays ++ [[lo, hi]] }

/-- `strconv.UnquoteChar(s, quote)` as (value, multibyte, tail, err) -/
def Go.unquoteChar (X : Ext) (s : Str) (quote : Int) : M (Int × Bool × Str × Obj) := fun st =>
  match X.unquoteChar s quote with
  | none => .ok (0, false, [], Obj.named "strconv.ErrSyntax") st
  | some (v, mb, tail) => .ok (v, mb, tail, Obj.nil) st

/-! ### owned lists (a slice whose elements are structs) -/

/-- `l[i]` -/
def Go.listIdx {α : Type} (l : List α) (i : Int) : M α := fun st =>
  if 0 ≤ i then
    match l[i.toNat]? with
    | some v => .ok v st
    | none => .panic
  else .panic

/-- `len(l)` -/
def Go.listLen {α : Type} (l : List α) : Int := l.length

/-! ### fmt.Sprintf: the format is parsed by the translator into pieces -/

inductive Fmt where
  | lit (s : String)      -- literal text of the format, or a constant argument of %s
  | text (s : String)     -- %s of a text (a struct field)
  | bytes (s : Str)       -- %s of a byte string
  | int (i : Int)         -- %d

def Fmt.out : Fmt → Str
  | .lit s => Go.lit s
  | .text s => Go.lit s
  | .bytes b => b
  | .int i => Go.lit (toString i)

/-- `fmt.Sprintf(format, args…)` for a constant format of literal text, %s, %d, %% -/
def Go.sprintf (ps : List Fmt) : Str := ps.flatMap Fmt.out

/-! ### error values (third batch: the error-rendering path; see the header) -/

/-- `x == T(v)` for an interface value and a constant of the named integer type `T`: same dynamic type, same value -/
def Obj.isInt : Obj → String → Int → Bool
  | .mk tag [i] [] [], t, v => decide (tag = t) && decide (i = v)
  | _, _, _ => false

/-- the record of an error value: its dynamic type (or constructor), `Pos()` (0 for a plain `error`), the bytes of `Error()` -/
def Go.mkErr (tag : String) (pos : Int) (text : Str) : Obj := .mk tag (pos :: text) [] []

/-- `e.Pos()` of a parsley.Error (assumed pure); a panic on the nil interface -/
def Go.errPos : Obj → M Int
  | .nil => Go.panic
  | .mk _ (p :: _) _ _ => pure p
  | _ => pure 0

/-- `e.Error()` of an error value (assumed pure), as bytes; a panic on the nil interface -/
def Go.errText : Obj → M Str
  | .nil => Go.panic
  | .mk _ (_ :: t) _ _ => pure t
  | _ => pure []

/-- `fmt.Errorf(format, args…)` for a constant format of literal text, %s, %d, %%: ASSUMED
    `fmt.Errorf(format, args…).Error() = fmt.Sprintf(format, args…)` -/
def Go.errorf (text : Str) : Obj := Go.mkErr "fmt.Errorf" 0 text

end PV.ProgPrelude
