import ParsleyVerif.Model.Search
import ParsleyVerif.Model.Data
