import Driver.Parse
import ParsleyVerif.Spec.WF
namespace Driver
open PV

/-- `wfcheck (env g…) (root g)`: the verdict of the C02 certificate check on the least certificate, and the
    nullable rules of that certificate -/
def runWF (args : List Sexp) : String :=
  let parsed : Option (List G × G) := do
    let env ← (← findArg "env" args).mapM parseG
    let root ← match ← findArg "root" args with | [g] => parseG g | _ => none
    some (env, root)
  match parsed with
  | none => "bad-input"
  | some (env, root) =>
    let c := autoCert env root
    let nulls := (List.range env.length).filter c.nullable
    s!"wf={wf c env root};null={showNats nulls}"

end Driver
