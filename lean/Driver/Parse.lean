import Driver.Grammar
import ParsleyVerif.Spec.Strip
namespace Driver
open PV PV.Text

structure ParseCase where
  env : List G
  root : G
  files : List (String × Bytes)
  target : Nat
  tables : Tables
  ghost : Bool
  maxCalls : Nat

def findArg (name : String) (l : List Sexp) : Option (List Sexp) :=
  l.findSome? (fun e => match e with
    | .list (.atom n :: r) => if n == name then some r else none
    | _ => none)

def parseCase (args : List Sexp) : Option ParseCase := do
  let env ← (← findArg "env" args).mapM parseG
  let root ← match ← findArg "root" args with | [g] => parseG g | _ => none
  let files ← (← findArg "files" args).mapM (fun e => match e with
    | .list [n, d] => do some ((← n.str?), (← d.bytes?))
    | _ => none)
  let target ← match ← findArg "target" args with | [k] => k.nat? | _ => none
  let tables ← parseTables ((findArg "params" args).getD [])
  let ghost := match findArg "ghost" args with | some [.atom "0"] => false | _ => true
  let maxCalls := match findArg "budget" args with | some [k] => k.nat?.getD 0 | _ => 60000
  some { env, root, files, target, tables, ghost, maxCalls }

/-- builds the file set the way the harness does: every file is added in order; the target is parsed -/
def buildFiles (files : List (String × Bytes)) : FileSet × List File :=
  files.foldl (fun (p : FileSet × List File) nd =>
    let (fs, f) := p.1.addFile (newFile nd.1 nd.2)
    (fs, p.2 ++ [f])) ({}, [])

def driverFuel : Nat := 10000000

def maxList (l : List Nat) : Nat := l.foldl max 0

def ghostSummary (st : St) : String :=
  let depths := st.log.filterMap (fun e => match e with | .body _ _ d => some d | _ => none)
  let bodies := st.log.filterMap (fun e => match e with | .body i p _ => some (i, p) | _ => none)
  let runs := bodies.map (fun k => (bodies.filter (· == k)).length)
  let fails := st.log.filterMap (fun e => match e with | .termFail p _ => some p | _ => none)
  let hits := (st.log.filter (fun e => match e with | .hit _ _ => true | _ => false)).length
  let curt := (st.log.filter (fun e => match e with | .curtail _ _ => true | _ => false)).length
  let ff := if fails.isEmpty then "-" else toString (maxList fails)
  s!"maxdepth={maxList depths};bodyruns={maxList runs};ffail={ff};nobody={hits + curt}"

/-- nodes of a result rendered as trees, counted with a cut-off (a shared forest can be exponentially large as trees) -/
partial def countNodes (budget : Nat) : List Node → Option Nat
  | [] => some budget
  | n :: rest =>
    if budget = 0 then none else
    match n with
    | .nt _ cs _ _ _ =>
      match countNodes (budget - 1) cs with
      | none => none
      | some b => countNodes b rest
    | _ => countNodes (budget - 1) rest

def runParse (args : List Sexp) : String :=
  match parseCase args with
  | none => "bad-input"
  | some c =>
    let (fs, files) := buildFiles c.files
    match files[c.target]? with
    | none => "bad-input"
    | some f =>
      let cfg : Cfg := { env := c.env, file := f, fileSet := fs, params := c.tables.params, ghost := c.ghost, maxCalls := c.maxCalls }
      let t := c.tables
      let direct := match run cfg driverFuel c.root [] (f.pos 0) {} with
        | none => "over-budget"
        | some (o, st) =>
          if (countNodes 4000 o.res.alts).isNone then "over-budget" else
          s!"res={showRes t o.res};cp={showNats o.cp};err={showErr o.err};ctxerr={showErr st.ctxErr};calls={st.calls}" ++
            (if c.ghost then ";" ++ ghostSummary st else "")
      let viaParse := match parse cfg driverFuel c.root with
        | none => "out-of-fuel"
        | some p =>
          s!"node={showRes t p.res};msg={match p.msg with | some m => showBytes m | none => "-"};calls={p.st.calls}"
      let stripped := match findArg "strip" args with
        | none => ""
        | some ks =>
          let S := fun i => (ks.filterMap Sexp.nat?).contains i
          let cfgS : Cfg := { cfg with env := stripList S c.env, ghost := false }
          match run cfgS driverFuel (c.root.strip S) [] (f.pos 0) {} with
          | none => "|S:over-budget"
          | some (o, st) => s!"|S:res={showRes t o.res};cp={showNats o.cp};err={showErr o.err};ctxerr={showErr st.ctxErr};calls={st.calls}"
      if direct == "over-budget" then "over-budget" else "R:" ++ direct ++ "|P:" ++ viaParse ++ stripped

end Driver
