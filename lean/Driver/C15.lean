import ParsleyVerif.Model.Data
import Driver.Sexp
namespace Driver
open PV.Data

def parseOp : Sexp → Option Op
  | .list (.atom "newSet" :: vs) => (vs.mapM Sexp.int?).map Op.newSet
  | .list [.atom "insert", i, v] => do some (.insert (← i.nat?) (← v.int?))
  | .list [.atom "union", i, j] => do some (.union (← i.nat?) (← j.nat?))
  | .list [.atom "len", i] => do some (.len (← i.nat?))
  | .list [.atom "each", i] => do some (.each (← i.nat?))
  | .list (.atom "newMap" :: kvs) => do
      let l ← kvs.mapM (fun e => match e with
        | .list [k, v] => do some ((← k.int?), (← v.int?))
        | _ => none)
      some (.newMap l)
  | .list [.atom "inc", i, k] => do some (.inc (← i.nat?) (← k.int?))
  | .list [.atom "filter", i, j] => do some (.filter (← i.nat?) (← j.nat?))
  | .list [.atom "get", i, k] => do some (.get (← i.nat?) (← k.int?))
  | .list [.atom "keys", i] => do some (.keys (← i.nat?))
  | .list [.atom "eachMap", i] => do some (.eachMap (← i.nat?))
  | _ => none

def showInts (l : List Int) : String := "[" ++ ",".intercalate (l.map toString) ++ "]"
def showPairs (l : List (Int × Int)) : String :=
  "{" ++ ",".intercalate (l.map (fun kv => toString kv.1 ++ ":" ++ toString kv.2)) ++ "}"

def showOut : Out → String
  | .none => "-"
  | .int n => toString n
  | .ints l => showInts l
  | .pairs l => showPairs l
  | .bad => "bad-op"

def showPool (st : St) : String :=
  " ".intercalate (st.pool.map (fun v => match absVal st v with
    | .set l => showInts l
    | .map m => showPairs m))

/-- growth policy of the driver (any policy gives the same output: theorem c15_grow_irrelevant) -/
def driverGrow (c : Nat) : Nat := 2 * c + 1

def runC15 (pinned : Bool) (args : List Sexp) : String :=
  match args.mapM parseOp with
  | none => "bad-input"
  | some ops =>
    let (_, outs) := ops.foldl (fun (p : St × List String) op =>
        let (st', o) := (if pinned then stepPinned else step) driverGrow p.1 op
        (st', p.2 ++ [showOut o ++ "|" ++ showPool st'])) (({} : St), [])
    ";".intercalate outs

end Driver
