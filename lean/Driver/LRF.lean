import Driver.Parse
import ParsleyVerif.Spec.LRF
namespace Driver
open PV

/-- `lrfcheck (env g…) (root g)`: the verdict of the C03 certificate check (left-recursion-free) on the least
    certificate, and the verdict of the C02 check it contains -/
def runLRF (args : List Sexp) : String :=
  let parsed : Option (List G × G) := do
    let env ← (← findArg "env" args).mapM parseG
    let root ← match ← findArg "root" args with | [g] => parseG g | _ => none
    some (env, root)
  match parsed with
  | none => "bad-input"
  | some (env, root) =>
    let c := lrfAutoCert env root
    s!"lrf={lrf c env root};wf={wf c.wf env root}"

end Driver
