import ParsleyVerif.Model.Walk
import ParsleyVerif.Model.Eval
import Driver.Parse
namespace Driver
open PV PV.Walk

partial def parseT : Sexp → Option T
  | .list [.atom "leaf", i] => i.nat?.map T.leaf
  | .list (.atom "nt" :: i :: interp :: cs) => do
    let k := match interp with | .atom "-" => none | e => e.nat?
    some (.nt (← i.nat?) k none (← cs.mapM parseT))
  | .list (.atom "list" :: i :: items) => do some (.list (← i.nat?) (← items.mapM parseT))
  | _ => none

/-- interpreter k: 0 plain, 1 StaticChecker, 2 NodeTransformer, 3 both -/
def menuCaps (k : Nat) : ICap := { checker := k % 4 == 1 || k % 4 == 3, transformer := k % 4 == 2 || k % 4 == 3 }

def childSchemas : List T → Nat
  | [] => 0
  | c :: r => (c.schema.getD 0) + 3 * childSchemas r

def menuChecker (fail : Option Nat) : Checker := fun _ node =>
  if fail == some node.id then .error node.id
  else match node with
    | .nt i _ _ cs => .ok (some (1000 + 10 * i + childSchemas cs % 1000))
    | _ => .ok none

def menuTransformer (fail : Option Nat) : Transformer := fun _ node =>
  if fail == some node.id then .error node.id else .ok (.leaf (100000 + node.id))

partial def showT : T → String
  | .leaf i => s!"l{i}"
  | .nt i _ s cs => s!"n{i}:{match s with | some v => toString v | none => "-"}[" ++ " ".intercalate (cs.map showT) ++ "]"
  | .list i items => s!"L{i}[" ++ " ".intercalate (items.map showT) ++ "]"

def optNat : Option (List Sexp) → Option Nat
  | some [e] => e.nat?
  | _ => none

def runC13 (args : List Sexp) : String :=
  match findArg "tree" args with
  | some [te] =>
    match parseT te with
    | none => "bad-input"
    | some t =>
      let stopAt := optNat (findArg "stop" args)
      let (trace, res) := walk (fun i => stopAt == some i) t
      let (t', cerr) := check menuCaps (menuChecker (optNat (findArg "failc" args))) t
      let tr := transform menuCaps (menuTransformer (optNat (findArg "failt" args))) t
      s!"walk={showNats trace};res={res};check={match cerr with | some e => s!"err{e}" | none => "ok"};after={showT t'};transform=" ++
        (match tr with | .ok x => showT x | .error e => s!"err{e}")
  | _ => "bad-input"

/-! ### evaluation (C05, C16) -/

def wrap64 (x : Int) : Int := (x + 9223372036854775808) % 18446744073709551616 - 9223372036854775808

/-- the custom interpreters of the harness: 0 = left-associative binary arithmetic on int64 ([lhs, op, rhs]) -/
def menuCustom : CustomEval := fun id cs _pos ev =>
  match id, cs with
  | 0, [l, op, r] =>
    match ev l with
    | .ok (.int a) =>
      match ev r with
      | .ok (.int b) =>
        match op with
        | .term _ (.rune 43) _ _ => .ok (.int (wrap64 (a + b)))
        | .term _ (.rune 45) _ _ => .ok (.int (wrap64 (a - b)))
        | .term _ (.rune 42) _ _ => .ok (.int (wrap64 (a * b)))
        | .term _ (.rune 47) p _ => if b = 0 then .err p (tokOf "division by zero") else .ok (.int (wrap64 (Int.tdiv a b)))
        | _ => .panic "bad operator"
      | .ok _ => .panic "bad operand"
      | e => e
    | .ok _ => .panic "bad operand"
    | e => e
  | _, _ => .panic "unknown custom interpreter"

partial def showV (t : Tables) : V → String
  | .nil => "nil"
  | .int i => s!"i{i}"
  | .str b => "s" ++ showBytes b
  | .rune c => s!"r{c}"
  | .bool b => if b then "btrue" else "bfalse"
  | .float lex => match t.floats.lookup lex with | some (some bits) => "f" ++ bits | _ => "f?" ++ showBytes lex
  | .dur lex => match t.durs.lookup lex with | some (.inl v) => "d" ++ v | _ => "d?" ++ showBytes lex
  | .opaque i => s!"o{i}"
  | .arr l => "[" ++ ",".intercalate (l.map (showV t)) ++ "]"
  | .obj kvs =>
    let sorted := kvs.toArray.qsort (fun a b => showBytes a.1 < showBytes b.1) |>.toList
    "{" ++ ",".intercalate (sorted.map (fun kv => showBytes kv.1 ++ ":" ++ showV t kv.2)) ++ "}"

def runEval (args : List Sexp) : String :=
  match parseCase args with
  | none => "bad-input"
  | some c =>
    let (fs, files) := buildFiles c.files
    match files[c.target]? with
    | none => "bad-input"
    | some f =>
      let cfg : Cfg := { env := c.env, file := f, fileSet := fs, params := c.tables.params, ghost := false, maxCalls := c.maxCalls }
      match evaluate cfg menuCustom driverFuel c.root with
      | none => "over-budget"
      | some (.value v) => "value=" ++ showV c.tables v
      | some (.error m) => "error=" ++ showBytes m
      | some (.panic s) => "panic=" ++ s

end Driver
