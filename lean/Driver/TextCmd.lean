import Driver.Parse
namespace Driver
open PV PV.Text

/-- c11: every global position from 0 to next+2 -/
def runC11 (args : List Sexp) : String :=
  match (findArg "files" args) with
  | none => "bad-input"
  | some fl =>
    match fl.mapM (fun e => match e with
      | .list [n, d] => do some ((← n.str?), (← d.bytes?))
      | _ => none) with
    | none => "bad-input"
    | some files =>
      let (fs, fls) := buildFiles files
      let offs := fls.map (·.offset)
      let lens := fls.map (·.len)
      let ps := (List.range (fs.pos + 3)).map (fun p => (fs.position p).render)
      s!"offs={showNats offs};lens={showNats lens};next={fs.pos};pos=" ++ ",".intercalate ps

def showOptBytes : Option Bytes → String
  | none => "nil"
  | some b => showBytes b

/-- the custom functions of the Readf menu (the harness has the same menu in Go) -/
def readfMenu (id : Nat) (b : Bytes) : Option Bytes × Nat :=
  match id with
  | 0 => (some (b.take 1), 1)
  | 1 => (none, 0)
  | 2 => (some b, b.length)
  | 3 => match b with | 97 :: _ :: _ => (some (b.take 2), 2) | _ => (none, 0)
  | 4 => (some [], 0)                      -- breaks the contract: value with zero length
  | 5 => (some (b.take 1), b.length + 1)   -- breaks the contract: beyond the end
  | 6 => (some (b.take 2), 1)              -- breaks the contract: value longer than consumed
  | _ => (some (b.take 1 ++ b.take 1), 3)  -- escape-like: consumed 3, value 2 (only valid if 3 bytes remain)

def showPB : Option (Nat × Bool) → String
  | none => "panic"
  | some (p, b) => s!"{p},{b}"

def showPV : Option (Nat × Option Bytes) → String
  | none => "panic"
  | some (p, v) => s!"{p},{showOptBytes v}"

def runC09 (args : List Sexp) : String :=
  match parseCase (args ++ [.list [.atom "env"], .list [.atom "root", .list [.atom "empty"]]]) with
  | none => "bad-input"
  | some c =>
    let (_, files) := buildFiles c.files
    match files[c.target]? with
    | none => "bad-input"
    | some f =>
      let ops := (findArg "ops" args).getD []
      let outs := ops.map (fun op =>
        match op with
        | .list [.atom "readRune", p, ch] => (do some (showPB (readRune f (← p.nat?) (← ch.nat?)))).getD "bad-op"
        | .list [.atom "matchString", p, s] => (do some (showPB (matchString f (← p.nat?) (← s.bytes?)))).getD "bad-op"
        | .list [.atom "matchWord", p, s] => (do some (showPB (matchWord f (← p.nat?) (← s.bytes?)))).getD "bad-op"
        | .list [.atom "readRegexp", p, id] => (do
            let pos ← p.nat?
            let i ← id.nat?
            some (showPV (readRegexp (fun rest => (c.tables.params.regexp i rest).map (fun (x : Nat × Option Bytes) => x.1)) f pos))).getD "bad-op"
        | .list [.atom "readf", p, id] => (do some (showPV (readf (readfMenu (← id.nat?)) f (← p.nat?)))).getD "bad-op"
        | .list [.atom "skipWs", p, m] => (do
            let (np, e) := skipWhitespaces f (← p.nat?) (← parseMode m)
            some (s!"{np}," ++ showErr (wsToErr e))).getD "bad-op"
        | .list [.atom "remaining", p] => (do some (toString (remaining f (← p.nat?)))).getD "bad-op"
        | .list [.atom "isEOF", p] => (do some (toString (isEOF f (← p.nat?)))).getD "bad-op"
        | _ => "bad-op")
      s!"off={f.offset};len={f.len};" ++ ";".intercalate outs

/-- term: one terminal at one position -/
def runTerm (args : List Sexp) : String :=
  match parseCase (args ++ [.list [.atom "env"], .list [.atom "root", .list [.atom "empty"]]]) with
  | none => "bad-input"
  | some c =>
    let (_, files) := buildFiles c.files
    match files[c.target]?, findArg "term" args, findArg "pos" args with
    | some f, some [t], some [p] =>
      match parseG t, p.nat? with
      | some (.term tm), some pos =>
        match tm.parse c.tables.params f pos with
        | .node n => "node=" ++ showNode c.tables n
        | .err e => "err=" ++ showErr (some e)
        | .panic s => "panic=" ++ s
      | _, _ => "bad-input"
    | _, _, _ => "bad-input"

end Driver
