import ParsleyVerif.Model.Run
import Driver.Sexp
namespace Driver
open PV PV.Text

def parseMode : Sexp → Option WsMode
  | .atom "none" => some .none
  | .atom "spaces" => some .spaces
  | .atom "nl" => some .spacesNl
  | .atom "force" => some .forceNl
  | _ => none

def parseInterp : Sexp → Option Interp
  | .atom "none" => some .none
  | .atom "array" => some .array
  | .atom "object" => some .object
  | .atom "nil" => some .nilI
  | .list [.atom "select", i] => i.nat?.map .select
  | .list [.atom "custom", i] => i.nat?.map .custom
  | _ => none

def optBytes : Sexp → Option (Option Bytes)
  | .atom "-" => some none
  | e => (Sexp.bytes? e).map some

def parseOpts : Sexp → Option SeqOpts
  | .list [.atom "o", i, nm, sg, tk] => do
    some { interp := (← parseInterp i), name := (← optBytes nm), single := (← sg.nat?) != 0, token := (← optBytes tk) }
  | _ => none

partial def parseG : Sexp → Option G
  | .list [.atom "rune", c, nm] => do some (.term (.rune (← c.nat?) (← nm.bytes?)))
  | .list [.atom "op", s, nm] => do some (.term (.op (← s.bytes?) (← nm.bytes?)))
  | .list [.atom "word", w, i, nm] => do some (.term (.word (← w.bytes?) (← i.nat?) (← nm.bytes?)))
  | .list [.atom "bool", t, f] => do some (.term (.bool (← t.bytes?) (← f.bytes?)))
  | .list [.atom "nilw", s] => do some (.term (.nil (← s.bytes?)))
  | .list [.atom "int"] => some (.term .integer)
  | .list [.atom "float"] => some (.term .float)
  | .list [.atom "string", b] => do some (.term (.string ((← b.nat?) != 0)))
  | .list [.atom "char"] => some (.term .char)
  | .list [.atom "dur"] => some (.term .duration)
  | .list [.atom "regexp", i, tk, nm, gr] => do some (.term (.regexp (← i.nat?) (← tk.bytes?) (← nm.bytes?) ((← gr.nat?) != 0)))
  | .list [.atom "empty"] => some .empty
  | .list [.atom "eof"] => some .eof
  | .list [.atom "ref", k] => k.nat?.map .ref
  | .list [.atom "memo", i, g] => do some (.memo (← i.nat?) (← parseG g))
  | .list (.atom "any" :: gs) => (gs.mapM parseG).map .any
  | .list (.atom "choice" :: gs) => (gs.mapM parseG).map .choice
  | .list (.atom "seq" :: .atom k :: o :: gs) => do
    let kind ← match k with | "of" => some SeqKind.seqOf | "try" => some .seqTry | "foa" => some .seqFirstOrAll | _ => none
    some (.seq kind (← gs.mapM parseG) (← parseOpts o))
  | .list [.atom "many", ae, o, g] => do some (.many (← parseG g) ((← ae.nat?) != 0) (← parseOpts o))
  | .list [.atom "sepby", ae, o, v, s] => do some (.sepBy (← parseG v) (← parseG s) ((← ae.nat?) != 0) (← parseOpts o))
  | .list [.atom "sentence", g] => (parseG g).map G.sentence
  | .list [.atom "opt", g] => (parseG g).map .optional
  | .list [.atom "name", nm, g] => do some (.name (← parseG g) (← nm.bytes?))
  | .list [.atom "ltrim", m, g] => do some (.ltrim (← parseG g) (← parseMode m))
  | .list [.atom "rtrim", m, g] => do some (.rtrim (← parseG g) (← parseMode m))
  | .list [.atom "single", g] => (parseG g).map .single
  | .list [.atom "suppress", g] => (parseG g).map .suppress
  | _ => none

/-- parameter tables supplied by the harness (answers of strconv.ParseFloat, time.ParseDuration, regexp) -/
structure Tables where
  floats : List (Bytes × Option String) := []          -- lexeme ↦ bits (hex) or error
  durs : List (Bytes × (String ⊕ Bytes)) := []         -- lexeme ↦ int64 text, or error message
  res : List ((Nat × Bytes) × (Nat × Option Bytes)) := []  -- (id, rest) ↦ (len, group)

def parseTables (l : List Sexp) : Option Tables :=
  l.foldlM (fun (t : Tables) e =>
    match e with
    | .list [.atom "float", lex, .atom "err"] => do some { t with floats := ((← lex.bytes?), none) :: t.floats }
    | .list [.atom "float", lex, .atom bits] => do some { t with floats := ((← lex.bytes?), some bits) :: t.floats }
    | .list [.atom "dur", lex, .atom "ok", .atom v] => do some { t with durs := ((← lex.bytes?), .inl v) :: t.durs }
    | .list [.atom "dur", lex, .atom "err", m] => do some { t with durs := ((← lex.bytes?), .inr (← m.bytes?)) :: t.durs }
    | .list [.atom "re", i, rest, len, g] => do
      some { t with res := (((← i.nat?), (← rest.bytes?)), ((← len.nat?), (← optBytes g))) :: t.res }
    | _ => none) {}

def Tables.params (t : Tables) : Params :=
  { floatOk := fun lex => match t.floats.lookup lex with | some (some _) => true | _ => false,
    durErr := fun lex => match t.durs.lookup lex with
      | some (.inl _) => none
      | some (.inr m) => some m
      | none => some (tokOf "param-miss"),
    regexp := fun id rest => t.res.lookup (id, rest) }

/-! rendering (canonical, the Go side prints the same) -/

def showBytes (b : Bytes) : String := hexOfBytes b

def showVal (t : Tables) : Val → String
  | .rune c => s!"r{c}"
  | .str b => "s" ++ showBytes b
  | .int i => s!"i{i}"
  | .float lex => match t.floats.lookup lex with | some (some bits) => "f" ++ bits | _ => "f?" ++ showBytes lex
  | .dur lex => match t.durs.lookup lex with | some (.inl v) => "d" ++ v | _ => "d?" ++ showBytes lex
  | .bool b => if b then "btrue" else "bfalse"
  | .nil => "nil"
  | .opaque id => s!"o{id}"

partial def showNode (t : Tables) : Node → String
  | .term tok v p r => s!"T({showBytes tok},{showVal t v},{p},{r})"
  | .empty p => s!"E({p})"
  | .eof p => s!"F({p})"
  | .nt tok cs p r _ => s!"N({showBytes tok},{p},{r})[" ++ " ".intercalate (cs.map (showNode t)) ++ "]"

def showRes (t : Tables) : Res → String
  | .nil => "nil"
  | .one n => showNode t n
  | .list l => "L[" ++ " ".intercalate (l.map (showNode t)) ++ "]"

def showErr : Option Err → String
  | none => "-"
  | some e =>
    let k := match e.kind with | .notFound _ => "nf" | .ws _ => "ws" | .other _ => "ot" | .panic _ => "panic"
    s!"e({e.pos},{k},{showBytes e.kind.msg})"

def showNats (l : List Nat) : String := "[" ++ ",".intercalate (l.map toString) ++ "]"

end Driver
