/-
  Minimal S-expression reader for the line protocol (driver side; not part of the verified model).
  Atoms are runs of characters other than parentheses and blanks.
-/
namespace Driver

inductive Sexp
  | atom (s : String)
  | list (l : List Sexp)
deriving Repr, Inhabited

namespace Sexp

partial def parseList (cs : List Char) (acc : List Sexp) : Option (List Sexp × List Char) :=
  match cs with
  | [] => none
  | ')' :: r => some (acc.reverse, r)
  | ' ' :: r => parseList r acc
  | '\t' :: r => parseList r acc
  | '\n' :: r => parseList r acc
  | '\r' :: r => parseList r acc
  | '(' :: r =>
    match parseList r [] with
    | some (l, r') => parseList r' (.list l :: acc)
    | none => none
  | _ =>
    let a := cs.takeWhile (fun c => c != '(' && c != ')' && c != ' ' && c != '\t' && c != '\n' && c != '\r')
    parseList (cs.drop a.length) (.atom (String.ofList a) :: acc)

/-- parses a whole line as the body of an implicit list -/
def parseLine (s : String) : Option (List Sexp) :=
  match parseList (s.toList ++ [')']) [] with
  | some (l, []) => some l
  | _ => none

def atom? : Sexp → Option String
  | .atom s => some s
  | _ => none

def nat? : Sexp → Option Nat
  | .atom s => s.toNat?
  | _ => none

def int? : Sexp → Option Int
  | .atom s => s.toInt?
  | _ => none

def list? : Sexp → Option (List Sexp)
  | .list l => some l
  | _ => none

def hexVal (c : Char) : Option Nat :=
  if '0' ≤ c ∧ c ≤ '9' then some (c.toNat - '0'.toNat)
  else if 'a' ≤ c ∧ c ≤ 'f' then some (c.toNat - 'a'.toNat + 10)
  else none

partial def hexBytes (cs : List Char) (acc : List Nat) : Option (List Nat) :=
  match cs with
  | [] => some acc.reverse
  | a :: b :: r =>
    match hexVal a, hexVal b with
    | some x, some y => hexBytes r ((x * 16 + y) :: acc)
    | _, _ => none
  | _ => none

/-- `x` followed by hex digits (`x` alone is the empty byte string) -/
def bytes? : Sexp → Option (List Nat)
  | .atom s =>
    match s.toList with
    | 'x' :: r => hexBytes r []
    | _ => none
  | _ => none

def str? (e : Sexp) : Option String :=
  (bytes? e).map (fun bs => String.ofList (bs.map Char.ofNat))   -- ASCII only, used for names

end Sexp

def hexDigit (n : Nat) : Char := if n < 10 then Char.ofNat (48 + n) else Char.ofNat (87 + n)
def hexOfBytes (bs : List Nat) : String :=
  String.ofList ('x' :: bs.flatMap (fun b => [hexDigit (b / 16 % 16), hexDigit (b % 16)]))

end Driver
