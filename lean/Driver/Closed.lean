/-
  `gclosed (which arith|json) (env …) (root …)`: the tie between the closed grammar terms about which C05 / C16
  are proved (`PV.Garith`, `PV.Gjson`) and the S-expressions the harness builds the real parsers from.
  The env / root are parsed with the parser of the `eval` command and printed with the canonical printer
  `PV.G.show`; the answer is `same` iff the printed grammar is the printed closed term.
-/
import Driver.Tree
import ParsleyVerif.Spec.GShow
import ParsleyVerif.Spec.Arith
import ParsleyVerif.Spec.Json
namespace Driver
open PV

/-- the custom interpreter the `eval` command runs is the one C05 is proved about -/
theorem menuCustom_eq : menuCustom = PV.arithCustom := rfl

def firstDiff (a b : String) : String :=
  let la := a.toList
  let lb := b.toList
  let n := ((la.zip lb).takeWhile (fun p => p.1 == p.2)).length
  s!"at {n}: got `{String.ofList ((la.drop n).take 60)}` closed term has `{String.ofList ((lb.drop n).take 60)}`"

def runClosed (args : List Sexp) : String :=
  match findArg "which" args, findArg "env" args, findArg "root" args with
  | some [.atom w], some envE, some [rootE] =>
    match envE.mapM parseG, parseG rootE with
    | some env, some root =>
      let got := showGrammar env root
      let want? : Option String := match w with
        | "arith" => some (showGrammar Garith.env Garith.root)
        | "json" => some (showGrammar Gjson.env Gjson.root)
        | _ => none
      match want? with
      | none => "bad-input"
      | some want => if got == want then "same" else "differ:" ++ firstDiff got want
    | _, _ => "bad-input"
  | _, _, _ => "bad-input"

end Driver
