import Driver.Sexp
import Driver.C15
import Driver.C07
import Driver.Parse
import Driver.TextCmd
import Driver.Tree
import Driver.Closed
import Driver.WF
import Driver.LRF
namespace Driver

def handle (line : String) : String :=
  match Sexp.parseLine line with
  | some (.atom "c15" :: args) => runC15 false args
  | some (.atom "c15pinned" :: args) => runC15 true args
  | some (.atom "c07ops" :: args) => runC07 false args
  | some (.atom "c07opspinned" :: args) => runC07 true args
  | some (.atom "parse" :: args) => runParse args
  | some (.atom "c11" :: args) => runC11 args
  | some (.atom "c09" :: args) => runC09 args
  | some (.atom "term" :: args) => runTerm args
  | some (.atom "c13" :: args) => runC13 args
  | some (.atom "eval" :: args) => runEval args
  | some (.atom "gclosed" :: args) => runClosed args
  | some (.atom "wfcheck" :: args) => runWF args
  | some (.atom "lrfcheck" :: args) => runLRF args
  | some [] => ""
  | _ => "bad-input"

partial def loop (hin : IO.FS.Stream) (hout : IO.FS.Stream) : IO Unit := do
  let line ← hin.getLine
  if line.isEmpty then return ()
  hout.putStrLn (handle line)
  hout.flush
  loop hin hout

end Driver

def main : IO Unit := do
  let hin ← IO.getStdin
  let hout ← IO.getStdout
  Driver.loop hin hout
  hout.flush
