import Driver.Sexp
import Driver.C15
namespace Driver

def handle (line : String) : String :=
  match Sexp.parseLine line with
  | some (.atom "c15" :: args) => runC15 false args
  | some (.atom "c15pinned" :: args) => runC15 true args
  | some [] => ""
  | _ => "bad-input"

partial def loop (hin : IO.FS.Stream) (hout : IO.FS.Stream) : IO Unit := do
  let line ← hin.getLine
  if line.isEmpty then return ()
  hout.putStrLn (handle line)
  loop hin hout

end Driver

def main : IO Unit := do
  let hin ← IO.getStdin
  let hout ← IO.getStdout
  Driver.loop hin hout
  hout.flush
