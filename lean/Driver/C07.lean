import ParsleyVerif.Model.Slice
import Driver.Sexp
/-
  Driver command `c07ops`: replays an operation history of the C07S stream on the slice-level machine
  (ParsleyVerif/Model/Slice.lean) and prints, after EVERY operation, the outcome and the rendering of every
  pool value the harness knows about.

  Harness operations map one to one onto machine operations, except `(seq kind tok single pos i…)`, which the
  harness executes with the real `combinator.SeqOf/SeqTry/SeqFirstOrAll` over stub parsers and which is
  expanded here into the primitive machine operations seq.go performs (seqNew, listElem, seqBufWrite,
  seqResult, appendNode; the locals of the frame are dropped at the end).  The expansion is not part of the
  verified model: the theorems hold for every primitive history, whatever the expansion produces.
-/
namespace Driver.C07
open PV.Slice

def showTok : RTok → String
  | .nil => "nil"
  | .empty p => "E" ++ toString p
  | .eof p => "F" ++ toString p
  | .term t v p r => "T" ++ toString t ++ ":" ++ toString v ++ ":" ++ toString p ++ ":" ++ toString r
  | .ntOpen t p r => "N" ++ toString t ++ ":" ++ toString p ++ ":" ++ toString r ++ "["
  | .listOpen => "L["
  | .close => "]"
  | .dangling => "?"
  | .nested => "??"

def showR (l : List RTok) : String := " ".intercalate (l.map showTok)

/-- growth policy of the driver (no theorem depends on it) -/
def c07Grow (c : Nat) : Nat := 2 * c

structure C07St where
  s : St := {}
  hmap : List Nat := []        -- harness pool index ↦ machine pool index
  pinned : Bool := false

def C07St.step (c : C07St) (op : Op) : C07St × Out :=
  let r := (if c.pinned then stepPinned else PV.Slice.step) c07Grow c.s op
  ({ c with s := r.1 }, r.2)

/-- run a machine operation that may push one pool entry; returns its machine index -/
def C07St.stepNew (c : C07St) (op : Op) : C07St × Option Nat :=
  let n := c.s.pool.length
  let (c', o) := c.step op
  if o == Out.bad then (c', none)
  else if c'.s.pool.length > n then (c', some n) else (c', none)

inductive SeqKind | of | try_ | foa

def SeqKind.lenCheck (k : SeqKind) (l : Nat) (len : Nat) : Bool :=
  match k with
  | .of => len == l
  | .try_ => len > 0 && len ≤ l
  | .foa => len == 1 || len == l

structure SeqRun where
  c : C07St
  acc : Option Nat := none     -- machine index of `s.result` (none = nil)
  temps : List Nat := []
  failed : Bool := false

/-- `sequence.parse` / `parseNext` of combinator/seq.go over stub parsers returning pool values -/
partial def seqParse (kind : SeqKind) (tok pos : Nat) (single : Bool) (ps : List Nat) (f : Nat)
    (depth : Nat) (r : SeqRun) : SeqRun × Bool :=
  if r.failed then (r, true) else
  let l := ps.length
  let res : Handle := match ps[depth]? with
    | some idx => (r.c.s.get idx).getD Handle.nil
    | none => Handle.nil
  let parseNext (r : SeqRun) (e : Nat) : SeqRun × Bool :=
    let (c1, o) := r.c.step (.seqBufWrite f depth e)
    if o == Out.bad then ({ r with c := c1, failed := true }, true)
    else seqParse kind tok pos single ps f (depth + 1) { r with c := c1 }
  if res != Handle.nil then
    match res with
    | .list sl =>
      let rec loop (k : Nat) (r : SeqRun) : SeqRun × Bool :=
        if k < sl.len then
          let (c1, e) := r.c.stepNew (.listElem (ps.getD depth 0) k)
          match e with
          | none => ({ r with c := c1, failed := true }, true)
          | some e =>
            let (r2, stop) := parseNext { r with c := c1, temps := r.temps ++ [e] } e
            if stop then (r2, true) else loop (k + 1) r2
        else (r, false)
      loop 0 r
    | _ => parseNext r (ps.getD depth 0)
  else
    if kind.lenCheck l depth then
      let (c1, e) := r.c.stepNew (.seqResult f depth tok pos single)
      match e with
      | none => ({ r with c := c1, failed := true }, true)
      | some e =>
        let r1 : SeqRun := { r with c := c1, temps := r.temps ++ [e] }
        let r2 : SeqRun := match r1.acc with
          | none => { r1 with acc := some e }                 -- AppendNode(nil, x) = x
          | some a =>
            let (c2, a') := r1.c.stepNew (.appendNode a e)
            match a' with
            | none => { r1 with c := c2, failed := true }
            | some a' => { r1 with c := c2, acc := some a', temps := r1.temps ++ [a'] }
        if r2.failed then (r2, true)
        else if depth > 0 then
          -- s.nodes[depth-1].Token() == parser.EOF
          match r2.c.s.bufs[f]? with
          | some b =>
            match (cells r2.c.s.arrs b.arr).getD (depth - 1) Handle.nil with
            | .eof _ => (r2, true)
            | _ => (r2, false)
          | none => (r2, false)
        else (r2, false)
    else (r, false)

def runSeq (c : C07St) (kind : SeqKind) (tok pos : Nat) (single : Bool) (ps : List Nat) : C07St × Option Nat :=
  let f := c.s.bufs.length
  let (c0, _) := c.step .seqNew
  let (r, _) := seqParse kind tok pos single ps f 0 { c := c0 }
  if r.failed then (c, none)   -- never generated: the whole operation is rejected
  else
    let (c1, res) : C07St × Nat := match r.acc with
      | some a => (r.c, a)
      | none => let n := r.c.s.pool.length; ((r.c.step .newNil).1, n)
    let c2 := r.temps.foldl (fun c t => if t == res then c else (c.step (.drop t)).1) c1
    (c2, some res)

inductive HOp
  | prim (mk : (Nat → Option Nat) → Option Op)        -- machine op, given the index translation
  | seq (kind : SeqKind) (tok pos : Nat) (single : Bool) (ps : List Nat)

def parseHOp : Sexp → Option HOp
  | .list [.atom "nil"] => some (.prim fun _ => some .newNil)
  | .list [.atom "term", t, v, p, r] => do
      let t ← t.nat?; let v ← v.int?; let p ← p.nat?; let r ← r.nat?
      some (.prim fun _ => some (.newTerm t v p r))
  | .list [.atom "empty", p] => do let p ← p.nat?; some (.prim fun _ => some (.newEmpty p))
  | .list [.atom "eof", p] => do let p ← p.nat?; some (.prim fun _ => some (.newEOF p))
  | .list [.atom "append", i, j] => do
      let i ← i.nat?; let j ← j.nat?
      some (.prim fun m => do some (.appendNode (← m i) (← m j)))
  | .list [.atom "nlappend", i, j] => do
      let i ← i.nat?; let j ← j.nat?
      some (.prim fun m => do some (.nlAppend (← m i) (← m j)))
  | .list [.atom "opt", i, p] => do
      let i ← i.nat?; let p ← p.nat?
      some (.prim fun m => do some (.optionalAppend (← m i) p))
  | .list [.atom "elem", i, k] => do
      let i ← i.nat?; let k ← k.nat?
      some (.prim fun m => do some (.listElem (← m i) k))
  | .list [.atom "store", key, i] => do
      let key ← key.nat?; let i ← i.nat?
      some (.prim fun m => do some (.memoStore key (← m i)))
  | .list [.atom "hit", key] => do let key ← key.nat?; some (.prim fun _ => some (.memoHit key))
  | .list [.atom "trim", i, d] => do
      let i ← i.nat?; let d ← d.nat?
      some (.prim fun m => do some (.setReaderPos (← m i) d))
  | .list [.atom "drop", i] => do let i ← i.nat?; some (.prim fun m => do some (.drop (← m i)))
  | .list [.atom "render", i] => do let i ← i.nat?; some (.prim fun m => do some (.render (← m i)))
  | .list (.atom "seq" :: .atom kind :: tok :: single :: pos :: ps) => do
      let k ← (match kind with | "of" => some SeqKind.of | "try" => some SeqKind.try_ | "foa" => some SeqKind.foa | _ => none)
      some (.seq k (← tok.nat?) (← pos.nat?) ((← single.nat?) != 0) (← ps.mapM Sexp.nat?))
  | _ => none

def showPool (c : C07St) : String :=
  let t := table c.s
  " , ".intercalate (c.hmap.map (fun mi =>
    match c.s.pool[mi]? with
    | some e => (if e.live then "+" else "-") ++ showR (renderWith t c.s.arrs e.h)
    | none => "!"))

def execHOp (c : C07St) : HOp → C07St × String
  | .prim mk =>
    match mk (fun i => c.hmap[i]?) with
    | none => (c, "bad-op")
    | some op =>
      let pre := match op with
        | .setReaderPos i _ => if unshared c.s i then "u" else "s"
        | _ => ""
      let n := c.s.pool.length
      let (c', o) := c.step op
      let c'' := if c'.s.pool.length > n then { c' with hmap := c'.hmap ++ [n] } else c'
      (c'', match o with
        | .none => "-" ++ pre
        | .bad => "bad-op"
        | .r l => "r:" ++ showR l)
  | .seq kind tok pos single ps =>
    match ps.mapM (fun i => c.hmap[i]?) with
    | none => (c, "bad-op")
    | some mps =>
      if !(mps.all (fun i => (c.s.get i).isSome)) then (c, "bad-op") else
      match runSeq c kind tok pos single mps with
      | (c', some res) => ({ c' with hmap := c'.hmap ++ [res] }, "-")
      | (c', none) => (c', "bad-op")

def runC07 (pinned : Bool) (args : List Sexp) : String :=
  match args.mapM parseHOp with
  | none => "bad-input"
  | some ops =>
    let (_, outs) := ops.foldl (fun (p : C07St × List String) op =>
        let (c', o) := execHOp p.1 op
        (c', p.2 ++ [o ++ "|" ++ showPool c'])) (({ pinned := pinned } : C07St), [])
    ";".intercalate outs

end Driver.C07

namespace Driver
def runC07 := C07.runC07
end Driver
